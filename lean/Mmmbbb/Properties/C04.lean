/-
C04 — Redelivery lease: exclusive until the backoff deadline, then redelivered.

"After a message is delivered as attempt n it is not handed out again — to the same or any
concurrent puller, barring an explicit nack, zero deadline or seek — before the retry deadline
min(maxBackoff, minBackoff × 1.1ⁿ) (defaults 10 s / 10 min, plus less than 1 s of jitter), and it
is handed out again once that deadline has passed; the reported delivery attempt is exactly
n = 1, 2, 3, … .  ModifyAckDeadline with a positive value can only postpone the deadline, with zero
makes the message immediately redeliverable, and a nack reschedules it by the backoff."

Concurrency: a pull's delivery transaction is one atomic `step` of the model (SQLite immediate
transactions / PostgreSQL row locks provide that granularity), so the interleavings of any number of
concurrent pullers are exactly the operation lists quantified over below.

Float arithmetic: the implementation computes the delay in float64; the model uses exact integer
arithmetic and grants the implementation `Backoff.tol` (2⁻⁴⁰ relative + 2 ns), checked on every
pull of the correspondence run (`delayOk`).
-/
import Mmmbbb.Proofs.Lease
namespace Mmmbbb
open Backoff

/-! ### the back-off arithmetic -/

/-- the documented defaults: 10 s, 10 min, factor 1.1 — over the constants extracted from the source -/
theorem C04_defaults :
    Extracted.defaultMinDelay = 10 * 1000000000 ∧ Extracted.defaultMaxDelay = 600 * 1000000000 ∧
    Extracted.retryBackoffNum = 11 ∧ Extracted.retryBackoffDen = 10 := by decide

theorem effMin_pos (m : Option Int) : 0 < effMin m := by
  unfold effMin
  split
  · split
    · assumption
    · decide
  · decide

theorem effMax_pos (m : Option Int) : 0 < effMax m := by
  unfold effMax
  split
  · split
    · assumption
    · decide
  · decide

theorem pow_den_pos (n : Nat) : (0 : Int) < ((Extracted.retryBackoffDen ^ n : Nat) : Int) := by
  have : 0 < Extracted.retryBackoffDen ^ n := Nat.pow_pos (by decide)
  exact Int.ofNat_lt.mpr this

theorem pow_den_le_num (n : Nat) :
    ((Extracted.retryBackoffDen ^ n : Nat) : Int) ≤ ((Extracted.retryBackoffNum ^ n : Nat) : Int) :=
  Int.ofNat_le.mpr (Nat.pow_le_pow_left (by decide) n)

/-- the uncapped delay never falls below the minimum back-off -/
theorem raw_ge_min (mn : Int) (hmn : 0 ≤ mn) (n : Nat) : mn ≤ raw mn n := by
  unfold raw
  apply Int.le_ediv_of_mul_le (pow_den_pos n)
  exact Int.mul_le_mul_of_nonneg_left (pow_den_le_num n) hmn

/-- the uncapped delay grows with the attempt number -/
theorem raw_mono_succ (mn : Int) (hmn : 0 ≤ mn) (n : Nat) : raw mn n ≤ raw mn (n + 1) := by
  unfold raw
  apply Int.le_ediv_of_mul_le (pow_den_pos (n + 1))
  -- q * 10^(n+1) ≤ mn * 11^(n+1)   where q = mn*11^n / 10^n
  have hq := Int.ediv_mul_le (mn * ((Extracted.retryBackoffNum ^ n : Nat) : Int))
    (Int.ne_of_gt (pow_den_pos n))
  have hnum : (0 : Int) ≤ ((Extracted.retryBackoffNum ^ n : Nat) : Int) := Int.natCast_nonneg _
  have h0 : 0 ≤ mn * ((Extracted.retryBackoffNum ^ n : Nat) : Int) := Int.mul_nonneg hmn hnum
  have e1 : ((Extracted.retryBackoffDen ^ (n + 1) : Nat) : Int) =
      ((Extracted.retryBackoffDen ^ n : Nat) : Int) * 10 := by
    rw [Nat.pow_succ]; simp [C04_defaults.2.2.2]
  have e2 : ((Extracted.retryBackoffNum ^ (n + 1) : Nat) : Int) =
      ((Extracted.retryBackoffNum ^ n : Nat) : Int) * 11 := by
    rw [Nat.pow_succ]; simp [C04_defaults.2.2.1]
  rw [e1, e2]
  generalize mn * ((Extracted.retryBackoffNum ^ n : Nat) : Int) / ((Extracted.retryBackoffDen ^ n : Nat) : Int) = q at hq ⊢
  generalize hx : mn * ((Extracted.retryBackoffNum ^ n : Nat) : Int) = x at hq h0
  have : mn * (((Extracted.retryBackoffNum ^ n : Nat) : Int) * 11) = x * 11 := by rw [← hx, Int.mul_assoc]
  rw [this, ← Int.mul_assoc]
  generalize q * ((Extracted.retryBackoffDen ^ n : Nat) : Int) = y at hq ⊢
  omega

theorem raw_mono (mn : Int) (hmn : 0 ≤ mn) {n m : Nat} (h : n ≤ m) : raw mn n ≤ raw mn m := by
  induction h with
  | refl => exact Int.le_refl _
  | step _ ih => exact Int.le_trans ih (raw_mono_succ mn hmn _)

/-- **C04 (bounds)**: the nominal retry delay lies between the effective minimum and maximum
    back-off whenever min ≤ max (always the case for the defaults) -/
theorem C04_nominal_bounds (minB maxB : Option Int) (n : Nat) (h : effMin minB ≤ effMax maxB) :
    effMin minB ≤ nominal minB maxB n ∧ nominal minB maxB n ≤ effMax maxB := by
  unfold nominal
  simp only
  have := raw_ge_min (effMin minB) (Int.le_of_lt (effMin_pos minB)) n
  split
  · exact ⟨h, Int.le_refl _⟩
  · exact ⟨this, by omega⟩

/-- **C04 (monotone)**: a later attempt never waits less -/
theorem C04_nominal_mono (minB maxB : Option Int) {n m : Nat} (h : n ≤ m) :
    nominal minB maxB n ≤ nominal minB maxB m := by
  unfold nominal
  simp only
  have := raw_mono (effMin minB) (Int.le_of_lt (effMin_pos minB)) h
  split <;> split <;> omega

/-- **C04 (saturation)**: once the uncapped delay exceeds the maximum, the delay is the maximum — for
    this and (by monotonicity) every later attempt -/
theorem C04_nominal_saturates (minB maxB : Option Int) {n m : Nat} (h : n ≤ m)
    (hs : effMax maxB < raw (effMin minB) n) : nominal minB maxB m = effMax maxB := by
  have := raw_mono (effMin minB) (Int.le_of_lt (effMin_pos minB)) h
  unfold nominal
  simp only
  split
  · rfl
  · omega

/-- the first attempts with the default policy: 11 s, 12.1 s, 13.31 s … and the cap at 10 min -/
example : nominal none none 1 = 11000000000 ∧ nominal none none 2 = 12100000000 ∧
    nominal none none 3 = 13310000000 ∧ nominal none none 60 = 600000000000 := by decide

/-- a delay accepted by `delayOk` is at least the nominal delay (minus the float tolerance) and less
    than nominal + 1 s of jitter (plus tolerance) -/
theorem delayOk_bounds {nom δ : Int} (h : delayOk nom δ = true) :
    nom - tol nom ≤ δ ∧ δ < nom + tol nom + oneSecond := by
  unfold delayOk at h
  simp only [Bool.and_eq_true, decide_eq_true_eq] at h
  refine ⟨h.1, ?_⟩
  have h2 := h.2
  split at h2
  · rename_i hsmall
    simp only [decide_eq_true_eq] at h2
    unfold oneSecond at *
    omega
  · simpa using h2

/-! ### the lease -/

/-- **C04 (lease set, attempt numbers)**: a pull that hands out `(i, n)` found row `i` with
    `attempts = n - 1`, not completed, due — and leaves it with `attempts = n`, `lastAttemptedAt =
    now` and `attemptAt = now + δ` where `δ` lies in the back-off window of attempt `n`:
    `nominal n - tol ≤ δ < nominal n + tol + 1 s`. -/
theorem C04_lease_set (st : St) (s : String) (mx mb : Nat) (strict : Bool) (wait : Int) (obs : PullObs)
    (i : Id) (n : Nat) (hmem : (i, n) ∈ (step st (.pull s mx mb strict wait obs)).2.delivered) :
    ∃ sub c δ, st.db.liveSubByName s = some sub ∧ st.db.delById i = some c ∧ n = c.attempts + 1 ∧
      c.completedAt = none ∧ c.attemptAt ≤ st.now ∧
      nominal sub.minBackoff sub.maxBackoff n - tol (nominal sub.minBackoff sub.maxBackoff n) ≤ δ ∧
      δ < nominal sub.minBackoff sub.maxBackoff n + tol (nominal sub.minBackoff sub.maxBackoff n) + oneSecond ∧
      (step st (.pull s mx mb strict wait obs)).1.db.delById i =
        some { c with attempts := n, lastAttemptedAt := some st.now, attemptAt := st.now + δ } := by
  simp only [step] at hmem ⊢
  cases h : pull st.db st.now s mx mb strict wait obs with
  | error e => simp [h] at hmem
  | ok r =>
    obtain ⟨o, now'⟩ := r
    simp only [h] at hmem ⊢
    obtain ⟨sub, hsub, hspec⟩ := pull_post_delivered h
    obtain ⟨c, δ, hc, helig, hn, hok, hpost⟩ := hspec (i, n) hmem
    simp only at hc hn hok hpost
    have hb := delayOk_bounds hok
    unfold Db.eligible Delivery.isOpen at helig
    simp only [Bool.and_eq_true, decide_eq_true_eq] at helig
    refine ⟨sub, c, δ, hsub, hc, hn, ?_, helig.1.2, hb.1, hb.2, ?_⟩
    · cases hcc : c.completedAt with
      | none => rfl
      | some t => have := helig.1.1.2.1; rw [hcc] at this; cases this
    · rw [hpost, hn]; rfl

/-- **C04 (exclusive until the deadline)**: let row `i` be leased until `T` (not due before `T`, or
    completed) — which is what `C04_lease_set` establishes with `T = now + δ`.  Then along every
    continuation, of any length, whose operations run before `T` and are not a nack, a non-positive
    deadline modification, a seek or a delivery prune job — with any number of pulls by any number
    of pullers in any order — no pull response contains `i`. -/
theorem C04_exclusive (ops : List Op) : ∀ (st : St) (i : Id) (T : Time) (d : Delivery),
    (∀ op ∈ ops, op.keepsLease = true) →
    (∀ p ∈ trace st ops, p.1.now < T) →
    st.db.delById i = some d → held T d →
    ∀ p ∈ trace st ops, ∀ n, (i, n) ∉ p.2.delivered := by
  induction ops with
  | nil => intro st i T d _ _ _ _ p hp; cases hp
  | cons op r ih =>
    intro st i T d hops htime hd hheld p hp n
    have hnow : st.now < T := htime (st, (step st op).2) (by simp [trace])
    simp only [trace, List.mem_cons] at hp
    rcases hp with rfl | hp
    · -- this step: a delivered row is due and not completed, but `i` is held until T > now
      intro hmem
      cases op with
      | pull s mx mb strict wait obs =>
        obtain ⟨sub, c, δ, _, hc, _, hcomp, hdue, _⟩ := C04_lease_set st s mx mb strict wait obs i n hmem
        rw [hd] at hc; injection hc with hc; subst hc
        rcases hheld with h1 | h1
        · unfold Time at *; omega
        · rw [hcomp] at h1; cases h1
      | _ => simp [step, finish] at hmem <;> (try split at hmem) <;> simp at hmem
    · obtain ⟨d', hd', r'⟩ := step_held st op T hnow (hops op List.mem_cons_self) i d hd
      exact ih (step st op).1 i T d' (fun o ho => hops o (List.mem_cons_of_mem _ ho))
        (fun q hq => htime q (by simp only [trace, List.mem_cons]; exact Or.inr hq)) hd' (r'.2 hheld) p hp n

/-! ### ModifyAckDeadline and nack -/

/-- **C04 (positive ModifyAckDeadline only postpones)**: every row's deadline after `delay ids Δ`,
    `Δ > 0`, is at least what it was, and the rows it addresses are not due before `now + Δ`. -/
theorem C04_modack_monotone (db : Db) (now : Time) (ids : List Id) (Δ : Int) (hΔ : 0 < Δ) (o : TxOut Nat)
    (h : delay db now ids Δ = .ok o) (i : Id) (d : Delivery) (hd : db.delById i = some d) :
    ∃ d', o.db.delById i = some d' ∧ d.attemptAt ≤ d'.attemptAt ∧
      (ids.contains i = true → d.completedAt = none → now + Δ ≤ d'.attemptAt) := by
  unfold delay at h
  simp only at h
  split at h
  · omega
  · injection h with h; subst h
    simp only
    rw [Db.delById_eq] at hd ⊢
    unfold updateWhere
    rw [findDel_map _ _ _ (by intro x; split <;> rfl), hd]
    refine ⟨_, rfl, ?_⟩
    have hid := findDel_some_id hd
    simp only
    split
    · rename_i hp
      simp only [Bool.and_eq_true, decide_eq_true_eq] at hp
      refine ⟨?_, fun _ _ => ?_⟩
      · show d.attemptAt ≤ now + Δ; have := hp.2; unfold Time at *; omega
      · exact Int.le_refl _
    · rename_i hp
      refine ⟨Int.le_refl _, fun hc hn => ?_⟩
      simp only [Bool.and_eq_true, decide_eq_true_eq, not_and, Int.not_lt] at hp
      apply hp
      rw [hid, hc, hn]; simp

/-- **C04 (zero deadline)**: `delay ids Δ` with `Δ ≤ 0` makes every addressed outstanding row due at
    once (`attemptAt = now + Δ ≤ now`) and wakes its subscription. -/
theorem C04_modack_zero (db : Db) (now : Time) (ids : List Id) (Δ : Int) (hΔ : Δ ≤ 0) (o : TxOut Nat)
    (h : delay db now ids Δ = .ok o) (i : Id) (d : Delivery) (hd : db.delById i = some d)
    (hi : ids.contains i = true) (hn : d.completedAt = none) :
    o.db.delById i = some { d with attemptAt := now + Δ } ∧ d.subId ∈ o.wakes := by
  unfold delay at h
  simp only at h
  split at h
  · injection h with h; subst h
    simp only
    have hid := findDel_some_id hd
    have hp : (ids.contains d.id && d.completedAt.isNone) = true := by rw [hid, hi, hn]; rfl
    refine ⟨?_, ?_⟩
    · rw [Db.delById_eq] at hd ⊢
      unfold updateWhere
      rw [findDel_map _ _ _ (by intro x; split <;> rfl), hd]
      simp only [Option.map_some, hp, if_true]
    · have hmem : d ∈ db.dels := List.mem_of_find?_eq_some hd
      have : d.subId ∈ (db.dels.filter fun d => ids.contains d.id && d.completedAt.isNone).map (·.subId) :=
        List.mem_map.mpr ⟨d, List.mem_filter.mpr ⟨hmem, hp⟩, rfl⟩
      exact mem_dedup this
  · omega

/-- the nominal back-off is positive, so a lease never ends more than the float tolerance before it began -/
theorem nominal_pos (minB maxB : Option Int) (n : Nat) : 0 < nominal minB maxB n := by
  unfold nominal
  simp only
  split
  · exact effMax_pos maxB
  · have := raw_ge_min (effMin minB) (Int.le_of_lt (effMin_pos minB)) n
    have := effMin_pos minB
    omega

theorem nominal_tol_nonneg (minB maxB : Option Int) (n : Nat) :
    -2 ≤ nominal minB maxB n - tol (nominal minB maxB n) := by
  have hp := nominal_pos minB maxB n
  unfold tol
  have : nominal minB maxB n / 1099511627776 ≤ nominal minB maxB n :=
    Int.ediv_le_self _ (Int.le_of_lt hp)
  omega

/-- **C04 (delivered again after the deadline)**: the row a pull handed out as attempt `n` is, in the
    state the pull leaves, deliverable again on that subscription at every instant from its retry
    deadline `now + δ` on — for as long as it is neither acknowledged nor past its retention, and (on
    an ordered subscription) not blocked by its predecessor: nothing else is needed for the next
    pull's query to select it, with attempt number `n + 1`. -/
theorem C04_redelivered (st : St) (s : String) (mx mb : Nat) (strict : Bool) (wait : Int) (obs : PullObs)
    (i : Id) (n : Nat) (hmem : (i, n) ∈ (step st (.pull s mx mb strict wait obs)).2.delivered) :
    ∃ sub c', st.db.liveSubByName s = some sub ∧
      (step st (.pull s mx mb strict wait obs)).1.db.delById i = some c' ∧ c'.attempts = n ∧ c'.subId = sub.id ∧
      c'.completedAt = none ∧ st.now ≤ c'.attemptAt + oneSecond ∧
      ∀ t, c'.attemptAt ≤ t → t < c'.expiresAt →
        (sub.ordered = false ∨ (step st (.pull s mx mb strict wait obs)).1.db.predDone t c' = true) →
        (step st (.pull s mx mb strict wait obs)).1.db.eligible sub t c' = true := by
  obtain ⟨sub, c, δ, hs, hc, hn, hcomp, hdue, hlo, _, hafter⟩ := C04_lease_set st s mx mb strict wait obs i n hmem
  -- the row belongs to the pulled subscription
  have hsub : c.subId = sub.id := by
    simp only [step] at hmem
    cases h : pull st.db st.now s mx mb strict wait obs with
    | error e => simp [h] at hmem
    | ok r =>
      obtain ⟨o, now'⟩ := r
      simp only [h] at hmem
      obtain ⟨s', hs', hall⟩ := pull_delivered_spec h
      rw [hs] at hs'; injection hs' with hs'; subst hs'
      obtain ⟨c2, hc2, helig, _⟩ := hall (i, n) hmem
      rw [hc] at hc2; injection hc2 with hc2; subst hc2
      unfold Db.eligible at helig
      simp only [Bool.and_eq_true, beq_iff_eq] at helig
      exact helig.1.1.1
  refine ⟨sub, _, hs, hafter, rfl, hsub, hcomp, ?_, ?_⟩
  · -- the deadline is not before the delivery (back-off ≥ 0 up to the jitter tolerance)
    show st.now ≤ st.now + δ + oneSecond
    have := nominal_tol_nonneg sub.minBackoff sub.maxBackoff n
    unfold oneSecond
    unfold Time at *
    omega
  · intro t h1 h2 h3
    unfold Db.eligible Delivery.isOpen
    simp only [hsub, beq_self_eq_true, hcomp, Option.isNone_none, Bool.true_and, Bool.and_eq_true, decide_eq_true_eq,
      Bool.or_eq_true, Bool.not_eq_true']
    exact ⟨⟨h2, h1⟩, h3⟩

/-- **C04 (the pull is one step)**: `C04_exclusive` speaks about concurrent pullers because the model's
    `pull` selects the candidates and records the attempt (the lease) in one step.  The source has
    that shape: every transaction of `GetSubscriptionMessages.execute` that selects candidates also
    applies the results (regenerated fact; two real pulls interleaved at every transaction boundary
    are the run-time side of the same tie). -/
theorem C04_pull_is_one_transaction :
    (∀ x ∈ Extracted.pullTxShape, x = "with-apply") ∧ Extracted.pullTxShape ≠ [] := by
  refine ⟨?_, ?_⟩
  · have h : Extracted.pullTxShape.all (· == "with-apply") = true := by decide
    intro x hx; simpa using List.all_eq_true.mp h x hx
  · decide

/-! ### a waiting pull and the retry deadline

A pull that found nothing sleeps until a notification or until the time `nextAttempt` computes: the
attempt time of the first row when the outstanding rows are sorted by attempt time (or that row's end of
retention, if earlier).  Sorted by anything else, the timer may point past a row that is due sooner. -/

/-- the first row of `ORDER BY attempt_at ASC`: a row none of the others is due before -/
def firstDue : List Delivery → Option Delivery
  | [] => none
  | d :: r =>
    match firstDue r with
    | none => some d
    | some e => if d.attemptAt ≤ e.attemptAt then some d else some e

theorem firstDue_cons_some (x : Delivery) (r : List Delivery) : ∃ f, firstDue (x :: r) = some f := by
  simp only [firstDue]
  cases firstDue r with
  | none => exact ⟨x, rfl⟩
  | some e =>
    by_cases h : x.attemptAt ≤ e.attemptAt
    · exact ⟨x, by simp [h]⟩
    · exact ⟨e, by simp [h]⟩

theorem firstDue_le : ∀ (l : List Delivery) (f : Delivery), firstDue l = some f → ∀ d ∈ l, f.attemptAt ≤ d.attemptAt
  | [], _, h, _, _ => by cases h
  | x :: r, f, h, d, hd => by
    simp only [firstDue] at h
    cases hr : firstDue r with
    | none =>
      simp only [hr] at h
      injection h with h; subst h
      cases r with
      | nil => simp only [List.mem_cons, List.not_mem_nil, or_false] at hd; subst hd; exact Int.le_refl _
      | cons y r' =>
        obtain ⟨g, hg⟩ := firstDue_cons_some y r'
        rw [hg] at hr; cases hr
    | some e =>
      simp only [hr] at h
      have ih := firstDue_le r e hr
      simp only [List.mem_cons] at hd
      by_cases hle : x.attemptAt ≤ e.attemptAt
      · simp only [hle, if_true] at h
        injection h with h; subst h
        rcases hd with rfl | hd
        · exact Int.le_refl _
        · exact Int.le_trans hle (ih d hd)
      · simp only [hle, if_false] at h
        injection h with h; subst h
        rcases hd with rfl | hd
        · unfold Time at *; omega
        · exact ih d hd

/-- the wake-up time of a waiting pull -/
def wakeTime (l : List Delivery) : Option Time :=
  (firstDue l).map fun f => if f.expiresAt < f.attemptAt then f.expiresAt else f.attemptAt

/-- **C04 (a waiting pull is woken at the retry deadline)**: the timer of a waiting pull does not point
    past the attempt time of any outstanding row — so once a retry deadline has passed the waiter has
    been woken and its query hands the message out; and the source sorts by attempt time (regenerated
    fact). -/
theorem C04_waiter_wakes_by_deadline (l : List Delivery) (t : Time) (h : wakeTime l = some t) :
    (∀ d ∈ l, t ≤ d.attemptAt) ∧ Extracted.nextAttemptOrders.head? = some "Asc:AttemptAt" := by
  refine ⟨?_, by simp [Extracted.nextAttemptOrders]⟩
  unfold wakeTime at h
  cases hf : firstDue l with
  | none => rw [hf] at h; cases h
  | some f =>
    rw [hf] at h
    simp only [Option.map_some, Option.some.injEq] at h
    intro d hd
    have := firstDue_le l f hf d hd
    subst h
    split <;> (unfold Time at *; omega)

end Mmmbbb
