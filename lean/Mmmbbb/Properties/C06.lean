/-
C06 — Dead-lettering: bounded attempts, forwarded exactly once.

"With a dead-letter policy of N attempts, a message is delivered at most N times on the source
subscription; when it next becomes due (lease lapse seen by a pull, a nack, or the background sweep)
it is, in one step, retired from the source subscription and enqueued exactly once on every live
subscription of the dead-letter topic whose filter it satisfies, with its original id, payload and
attributes.  It is never both still deliverable on the source and forwarded, never forwarded twice,
and never forwarded before N deliveries or after it was acknowledged or expired."
-/
import Mmmbbb.Properties.C01
namespace Mmmbbb

/-- when does a delivery have to be dead-lettered instead of delivered / rescheduled -/
theorem dlTarget_iff (s : Sub) (d : Delivery) (t : Id) :
    s.dlTarget d = some t ↔ ∃ n, s.maxAttempts = some n ∧ s.dlTopicId = some t ∧ 0 < n ∧ n ≤ (d.attempts : Int) := by
  unfold Sub.dlTarget
  constructor
  · intro h
    split at h
    · rename_i n dlt hn hd
      split at h
      · rename_i hc
        injection h with h; subst h
        exact ⟨n, hn, hd, hc.1, hc.2⟩
      · cases h
    · cases h
  · rintro ⟨n, hn, hd, h1, h2⟩
    simp [hn, hd, h1, h2]

/-- **C06 (at most N deliveries)**: a pull hands a row out only if it must not be dead-lettered: with
    a dead-letter policy of `N` attempts on the subscription, the attempt number reported is at most
    `N` — attempts `N+1, N+2, …` never happen. -/
theorem C06_at_most_N {db : Db} {now : Time} {sub : String} {max maxBytes : Nat} {strict : Bool}
    {wait : Int} {obs : PullObs} {o : TxOut PullRes} {now' : Time}
    (h : pull db now sub max maxBytes strict wait obs = .ok (o, now'))
    (s : Sub) (hs : db.liveSubByName sub = some s) (N : Int) (t : Id)
    (hN : s.maxAttempts = some N) (ht : s.dlTopicId = some t) (hpos : 0 < N) :
    ∀ x ∈ o.val.delivered, (x.2 : Int) ≤ N := by
  unfold pull at h
  rw [hs] at h
  simp only at h
  split at h
  · cases h
  · rename_i cands hc
    split at h
    · cases h
    · split at h
      · injection h with h; injection h with h1 _; subst h1
        intro x hx; cases hx
      · split at h
        · cases h
        · rename_i o' hd
          injection h with h; injection h with h1 _; subst h1
          unfold pullDeliver at hd
          split at hd
          · cases hd
          · rename_i acc hl
            injection hd with hd; subst hd
            intro x hx
            simp only [List.mem_map] at hx
            obtain ⟨⟨c, δ⟩, hmem, rfl⟩ := hx
            rcases pullLoop_delays _ _ _ _ _ _ _ _ _ hl (c, δ) hmem with h0 | ⟨_, hnone, _⟩
            · cases h0
            · simp only at hnone ⊢
              unfold Sub.dlTarget at hnone
              rw [hN, ht] at hnone
              simp only at hnone
              split at hnone
              · cases hnone
              · rename_i hc'
                simp only [not_and, Int.not_le] at hc'
                have := hc' hpos
                omega

/-- **C06 (atomic move)**: a successful `deadLetter` of `d` — the single routine behind all three
    triggers — leaves the source row completed, appends only delivery rows, one per observed forward,
    each a fresh outstanding row for the *same message*, and touches no other table: the message is
    never both still deliverable on the source and forwarded. -/
theorem C06_atomic {db : Db} {d : Delivery} {dlt : Id} {now : Time} {fwds : List Fwd} {db' : Db} {w : List Id}
    (h : deadLetter db d dlt now fwds = .ok (db', w)) (hd : db.delById d.id = some d) :
    (∃ d', db'.delById d.id = some d' ∧ d'.completedAt = some now) ∧
    (∃ rows, db'.dels = markCompleted d.id now (db.dels ++ rows) ∧ rows.length = fwds.length ∧
      ∀ r ∈ rows, r.msgId = d.msgId ∧ r.completedAt = none ∧ r.attempts = 0) ∧
    SameOther db db' := by
  refine ⟨?_, ?_, deadLetter_other h⟩
  · obtain ⟨rows, rfl⟩ := deadLetter_shape h
    rw [Db.delById_eq]
    show ∃ d', findDel (markCompleted d.id now (db.dels ++ rows)) d.id = some d' ∧ d'.completedAt = some now
    unfold markCompleted updateWhere
    rw [findDel_map _ _ _ (by intro x; split <;> rfl)]
    have : findDel (db.dels ++ rows) d.id = some d := findDel_append_some hd
    rw [this]
    refine ⟨_, rfl, ?_⟩
    show (if (d.id == d.id) = true then ({ d with completedAt := some now } : Delivery) else d).completedAt = some now
    rw [if_pos (by simp)]
  · unfold deadLetter at h
    split at h
    · cases h
    · rename_i db1 w1 hf
      split at h
      · cases h
      · injection h with h; injection h with h1 _
        unfold dlForward at hf
        split at hf
        · split at hf
          · rename_i he
            injection hf with hf; injection hf with e1 _; subst e1
            have : fwds = [] := List.isEmpty_iff.mp he
            exact ⟨[], by simp [← h1], by simp [this], fun r hr => by cases hr⟩
          · cases hf
        · split at hf
          · split at hf
            · rename_i he
              injection hf with hf; injection hf with e1 _; subst e1
              have : fwds = [] := List.isEmpty_iff.mp he
              exact ⟨[], by simp [← h1], by simp [this], fun r hr => by cases hr⟩
            · cases hf
          · split at hf
            · cases hf
            · rename_i m hm
              obtain ⟨rows, hrows, hdb, _⟩ := deliverAll_shape hf
              subst hdb
              obtain ⟨_, hids, hall⟩ := mkRows_spec _ _ _ _ _ _ hrows
              refine ⟨rows, by simp [← h1], ?_, ?_⟩
              · have : rows.length = (rows.map (·.id)).length := by simp
                rw [this, hids]; simp
              · intro r hr
                obtain ⟨s, f, _, _, _, rfl⟩ := hall r hr
                have hmid : m.id = d.msgId := by
                  have := List.find?_some hm
                  simpa using this
                exact ⟨hmid, rfl, rfl⟩

/-- **C06 (not after done)**: the sweep only moves rows that are not completed, inside their retention
    and due, on live subscriptions with a full policy whose attempts are used up. -/
theorem C06_sweep_guard (db : Db) (now : Time) (mx : Nat) (victims : List Id) (fwds : List (Id × List Fwd))
    (o : TxOut Nat) (h : dlSweep db now mx victims fwds = .ok o) (v : Id) (hv : v ∈ victims) :
    ∃ d s n, db.delById v = some d ∧ db.subById d.subId = some s ∧ d.completedAt = none ∧ now < d.expiresAt ∧
      d.attemptAt ≤ now ∧ s.live = true ∧ s.maxAttempts = some n ∧ 0 < n ∧ n ≤ (d.attempts : Int) ∧ s.dlTopicId.isSome = true := by
  unfold dlSweep at h
  split at h
  · cases h
  · rename_i hok
    simp only [Bool.not_eq_true, Bool.not_eq_false'] at hok
    obtain ⟨d, hd, hp⟩ := limitOk_victim hok v hv
    unfold sweepCand Delivery.isOpen at hp
    simp only [Bool.and_eq_true, decide_eq_true_eq] at hp
    cases hs : db.subById d.subId with
    | none => simp [hs] at hp
    | some s =>
      simp only [hs] at hp
      cases hn : s.maxAttempts with
      | none => simp [hn] at hp
      | some n =>
        cases ht : s.dlTopicId with
        | none => simp [hn, ht] at hp
        | some t =>
          simp only [hn, ht, Bool.and_eq_true, decide_eq_true_eq] at hp
          refine ⟨d, s, n, hd, hs, ?_, hp.1.1.2, hp.1.2, hp.2.1, hn, hp.2.2.1, hp.2.2.2, by rw [ht]; rfl⟩
          cases hc : d.completedAt with
          | none => rfl
          | some x => have := hp.1.1.1; rw [hc] at this; cases this

theorem mem_insertById (d x : Delivery) (l : List Delivery) : x ∈ insertById d l ↔ x = d ∨ x ∈ l := by
  induction l with
  | nil => simp [insertById]
  | cons e r ih =>
    unfold insertById
    split
    · simp
    · simp only [List.mem_cons, ih]
      constructor
      · rintro (h | h | h)
        · exact Or.inr (Or.inl h)
        · exact Or.inl h
        · exact Or.inr (Or.inr h)
      · rintro (h | h | h)
        · exact Or.inr (Or.inl h)
        · exact Or.inl h
        · exact Or.inr (Or.inr h)

theorem mem_sortById (l : List Delivery) (x : Delivery) : x ∈ sortById l ↔ x ∈ l := by
  unfold sortById
  induction l with
  | nil => simp
  | cons a r ih => simp only [List.foldr_cons, mem_insertById, ih, List.mem_cons]

/-- every row the nack loop visits is a row of the table named by the request that is neither
    acknowledged nor past its retention -/
theorem nackLoop_victims_open (db : Db) (now : Time) (ids : List Id) :
    ∀ d ∈ sortById (db.dels.filter fun d => ids.contains d.id && d.isOpen now),
      d ∈ db.dels ∧ d.id ∈ ids ∧ d.completedAt = none ∧ now < d.expiresAt := by
  intro d hd
  have := (mem_sortById _ d).mp hd
  obtain ⟨h1, h2⟩ := List.mem_filter.mp this
  simp only [Bool.and_eq_true, List.contains_iff_mem] at h2
  unfold Delivery.isOpen at h2
  simp only [Bool.and_eq_true, decide_eq_true_eq] at h2
  refine ⟨h1, h2.1, ?_, h2.2.2⟩
  cases hc : d.completedAt with
  | none => rfl
  | some x => have := h2.2.1; rw [hc] at this; cases this

/-- **C06 (never after done, every trigger)**: the three triggers hand only deliveries that are neither
    acknowledged nor past their retention to the dead-letter routine — the nack path visits exactly the
    rows named by the request that are open (`nackLoop_victims_open`; their number is the reported
    count), the pull path its candidates (all eligible: `C01_offered`, `C02_pull_sound`), the sweep
    `C06_sweep_guard` rows; since a completed row stays completed along every continuation without
    seek (`C03_no_resurrect`), a delivery is forwarded at most once. -/
theorem C06_nack_guard (db : Db) (now : Time) (ids : List Id) (delays : List (Id × Int)) (fwds : List (Id × List Fwd))
    (o : TxOut (Nat × Nat)) (h : nack db now ids delays fwds = .ok o) :
    o.val.1 = (sortById (db.dels.filter fun d => ids.contains d.id && d.isOpen now)).length ∧
    ∀ d ∈ sortById (db.dels.filter fun d => ids.contains d.id && d.isOpen now),
      d ∈ db.dels ∧ d.id ∈ ids ∧ d.completedAt = none ∧ now < d.expiresAt := by
  refine ⟨?_, nackLoop_victims_open db now ids⟩
  unfold nack at h
  simp only at h
  split at h
  · cases h
  · injection h with h; subst h; rfl

end Mmmbbb
