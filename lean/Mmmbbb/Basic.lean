def hello := "world"
