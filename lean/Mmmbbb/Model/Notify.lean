/-
The wake-up protocol between waiting pulls and committing writers (actions/notify.go,
actions/get-subscription-messages.go:execute), at the granularity of transaction boundaries.

A *waiter* is a Pull (or the fetch loop of a StreamingPull) on one subscription:

    pc 0  not started
    pc 1  subscription checked (first transaction committed)
    pc 2  awaiter registered, query transaction ahead
    pc 3  query transaction committed (`found` says whether it returned messages)
    pc 4  blocked in `select` on its awaiter channel
    pc 5  returned to the caller

A *writer* is any committing operation: at `commit` the messages it makes deliverable become
visible (`adds`), at `wake` its commit hook calls `WakePublishListeners(subs…)`.

The registry `open` holds the registered, not yet closed channels.  Two facts about the source are
parameters of the model, so that the theorems can be stated for what the source says now
(`Cfg.ofSource` reads them from `Extracted`) and refuted for the alternatives:

* `wakeContinue`  — `WakePublishListeners` *skips* a subscription without waiters (`continue`) rather
                    than stopping at it (`return`);
* `registerFirst` — the pull loop registers its awaiter *before* it queries.
-/
import Mmmbbb.Extracted
namespace Mmmbbb.Notify

structure Cfg where
  wakeContinue  : Bool
  registerFirst : Bool
deriving DecidableEq, Repr

structure Waiter where
  sub   : Nat
  max   : Nat := 1000
  pc    : Nat := 0
  chan  : Option Nat := none
  found : Bool := false
  got   : Nat := 0
deriving DecidableEq, Repr, Inhabited

structure Writer where
  /-- (subscription, number of messages made deliverable) at commit -/
  adds  : List (Nat × Nat) := []
  /-- argument list of WakePublishListeners, in order -/
  wakes : List Nat := []
  pc    : Nat := 0
deriving DecidableEq, Repr, Inhabited

structure Sys where
  waiter : Nat → Waiter
  writer : Nat → Writer
  /-- deliverable messages per subscription -/
  avail  : Nat → Nat
  /-- (channel, subscription): registered and not closed -/
  «open» : List (Nat × Nat) := []
  /-- subscriptions that have a (possibly empty) waiter set in the registry: created by the first
      registration, removed by the next wake-up (a cancelled awaiter leaves its empty set behind) -/
  ents   : List Nat := []
  next   : Nat := 0

def upd {α} (f : Nat → α) (i : Nat) (v : α) : Nat → α := fun j => if j = i then v else f j

@[simp] theorem upd_same {α} (f : Nat → α) (i : Nat) (v : α) : upd f i v i = v := by simp [upd]
theorem upd_other {α} (f : Nat → α) (i j : Nat) (v : α) (h : j ≠ i) : upd f i v j = f j := by simp [upd, h]

def addsFor : List (Nat × Nat) → Nat → Nat
  | [], _ => 0
  | (s, k) :: rest, x => (if s = x then k else 0) + addsFor rest x

def chanOpen (op : List (Nat × Nat)) (c : Option Nat) : Bool :=
  match c with
  | some c => op.any (fun p => p.1 == c)
  | none => false

/-- CancelPublishAwaiter: remove the channel (if still registered) without closing it -/
def cancel (op : List (Nat × Nat)) (c : Option Nat) : List (Nat × Nat) :=
  match c with
  | some c => op.filter (fun p => p.1 != c)
  | none => op

/-- `CancelPublishAwaiter(old); pubAwaiter = PublishAwaiter(sub)` -/
def register (σ : Sys) (i : Nat) : Sys :=
  let w := σ.waiter i
  { σ with «open» := cancel σ.open w.chan ++ [(σ.next, w.sub)], next := σ.next + 1, ents := w.sub :: σ.ents,
           waiter := upd σ.waiter i { w with chan := some σ.next } }

/-- WakePublishListeners(subs…): for each listed subscription that has a waiter set, closes and
    removes every channel and drops the set; what happens at a subscription *without* a set is the
    `wakeContinue` parameter. -/
def wakeAll (cont : Bool) : List (Nat × Nat) → List Nat → List Nat → List (Nat × Nat) × List Nat
  | op, ents, [] => (op, ents)
  | op, ents, s :: rest =>
    if s ∈ ents then wakeAll cont (op.filter (fun p => p.2 != s)) (ents.filter (fun e => e != s)) rest
    else if cont then wakeAll cont op ents rest
    else (op, ents)

def setW (σ : Sys) (i : Nat) (w : Waiter) : Sys := { σ with waiter := upd σ.waiter i w }
def setX (σ : Sys) (j : Nat) (x : Writer) : Sys := { σ with writer := upd σ.writer j x }
def setOpen (σ : Sys) (op : List (Nat × Nat)) : Sys := { σ with «open» := op }
def setAvail (σ : Sys) (a : Nat → Nat) : Sys := { σ with avail := a }
def setEnts (σ : Sys) (e : List Nat) : Sys := { σ with ents := e }

/-- back to the top of the RETRY loop -/
def reloop (cfg : Cfg) (σ : Sys) (i : Nat) : Sys :=
  let σ' := if cfg.registerFirst then register σ i else σ
  setW σ' i { σ'.waiter i with pc := 2 }

def waiterStep (cfg : Cfg) (σ : Sys) (i : Nat) : Sys :=
  let w := σ.waiter i
  match w.pc with
  | 0 => setW σ i { w with pc := 1 }
  | 1 => reloop cfg σ i
  | 2 =>
    -- the query transaction: takes up to `max` of what is deliverable
    let a := σ.avail w.sub
    let k := if a ≤ w.max then a else w.max
    setW (setAvail σ (upd σ.avail w.sub (a - k))) i { w with pc := 3, found := decide (0 < a), got := k }
  | 3 =>
    if w.found then
      -- results: return; the deferred CancelPublishAwaiter runs
      setW (setOpen σ (cancel σ.open w.chan)) i { w with pc := 5 }
    else if cfg.registerFirst then
      if chanOpen σ.open w.chan then setW σ i { w with pc := 4 } else reloop cfg σ i
    else
      -- the alternative order: the awaiter is taken only now, after the query
      setW (register σ i) i { (register σ i).waiter i with pc := 4 }
  | 4 => if chanOpen σ.open w.chan then σ else reloop cfg σ i
  | _ => σ

def writerStep (cfg : Cfg) (σ : Sys) (j : Nat) : Sys :=
  let x := σ.writer j
  match x.pc with
  | 0 => setX (setAvail σ (fun s => σ.avail s + addsFor x.adds s)) j { x with pc := 1 }
  | 1 =>
    let r := wakeAll cfg.wakeContinue σ.open σ.ents x.wakes
    setX (setEnts (setOpen σ r.1) r.2) j { x with pc := 2 }
  | _ => σ

/-- a schedule entry: which process takes its next step -/
inductive Proc where
  | waiter (i : Nat)
  | writer (j : Nat)
deriving DecidableEq, Repr

def step (cfg : Cfg) (σ : Sys) : Proc → Sys
  | .waiter i => waiterStep cfg σ i
  | .writer j => writerStep cfg σ j

def run (cfg : Cfg) (σ : Sys) : List Proc → Sys
  | [] => σ
  | p :: ps => run cfg (step cfg σ p) ps

/-- all processes at their start, nothing registered -/
def init (subs : Nat → Nat) (maxes : Nat → Nat) (writers : Nat → List (Nat × Nat) × List Nat) (avail : Nat → Nat) : Sys :=
  { waiter := fun i => { sub := subs i, max := maxes i },
    writer := fun j => { adds := (writers j).1, wakes := (writers j).2 },
    avail := avail }

/-- the configuration the source has now -/
def Cfg.ofSource : Cfg :=
  { wakeContinue := Extracted.wakeNilBranch == "continue",
    registerFirst := Extracted.pullRegistersBeforeQuery }

/-- number of registered channels of a subscription (what `PubWaiterCountsForVerif` reports) -/
def regCount (σ : Sys) (s : Nat) : Nat := (σ.open.filter (fun p => p.2 == s)).length

end Mmmbbb.Notify
