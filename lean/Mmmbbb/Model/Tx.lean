/-
Storage faults.  An operation runs as SQL transactions; a storage failure or a cancelled request
context inside a transaction rolls that transaction back and the operation reports an error.  Every
operation of the model is one transaction, except `pull`, whose subscription check (which refreshes
the subscription's expiry, C14) commits before the delivery transaction starts.

`stepFaulted st op k` is the state and output when the fault hits inside transaction number `k`
(0-based) of the operation.  Notifications are commit hooks: they run only after the commit
(`Extracted.commitHooks` lists every hook registration found in the source and whether it is guarded
by the commit).
-/
import Mmmbbb.Model.Step
namespace Mmmbbb

/-- number of SQL transactions of an operation -/
def Op.txCount : Op → Nat
  | .pull .. => 2
  | .advance _ => 0
  | _ => 1

/-- what a fault leaves behind: nothing, or (pull, second transaction) the refreshed expiry -/
def faultEffect (st : St) (refreshed : Option String) : St :=
  match refreshed with
  | none => st
  | some name =>
    match st.db.liveSubByName name with
    | some s => { st with db := refreshExpiry st.db s st.now }
    | none => st

def faultOut : Out := { resp := "E:unavailable", ok := false }

def stepFaulted (st : St) (op : Op) (k : Nat) : St × Out :=
  match op, k with
  | .pull s _ _ _ _ _, 1 => (faultEffect st (some s), faultOut)
  | _, _ => (faultEffect st none, faultOut)

end Mmmbbb
