/-
The gRPC handlers of `services/grpc-publisher.go`, `grpc-subscriber.go`, `grpc-snapshots.go`:
validation → mapping of the request to action parameters (defaults) → **constructor preconditions
as an explicit `panic` outcome** → transaction → status mapping → response.

Requests carry their fields after protobuf decoding: absent nested messages are `none`, durations
are the `time.Duration` (`AsDuration`) in ns, integers are `Int`.
-/
import Mmmbbb.Model.Actions
import Mmmbbb.Model.Codec
namespace Mmmbbb.Api

inductive Status
  | ok | invalidArgument | notFound | alreadyExists | unimplemented | unknown | panic
deriving Repr, DecidableEq, Inhabited

def Status.text : Status → String
  | .ok => "OK" | .invalidArgument => "InvalidArgument" | .notFound => "NotFound"
  | .alreadyExists => "AlreadyExists" | .unimplemented => "Unimplemented" | .unknown => "Unknown"
  | .panic => "PANIC"

def ofErr : Err → Status
  | .notFound => .notFound
  | .exists => .alreadyExists
  | .invalid _ => .unknown          -- "invalid message filter" is not a status error: AsStatusError → Unknown
  | .fk => .unknown
  | .badObs _ => .unknown

/-! ### resource names (`services/grpc.go`) -/

/-- `strings.Split(name, "/")` on the characters -/
def splitSlash : List Char → List (List Char)
  | [] => [[]]
  | c :: r =>
    if c == '/' then [] :: splitSlash r
    else match splitSlash r with
      | [] => [[c]]
      | h :: t => (c :: h) :: t

def validName (kind : String) (name : String) : Bool :=
  match splitSlash name.toList with
  | [a, b, c, d] => a == "projects".toList && !b.isEmpty && c == kind.toList && !d.isEmpty
  | _ => false

/-- a name is empty (the `New…` constructors panic on it) -/
def emptyName (name : String) : Bool := name.toList.isEmpty

def isValidTopicName := validName "topics"
def isValidSubscriptionName := validName "subscriptions"
def isValidSnapshotName := validName "snapshots"

/-! ### request records -/

structure PushCfg where
  endpoint   : String
  attrs      : StrMap
  auth       : Bool        -- authentication_method present
  unwrapped  : Bool        -- wrapper present and not the Pub/Sub wrapper
deriving Repr, DecidableEq, Inhabited

structure DlPolicy where
  topic       : String
  maxAttempts : Int
deriving Repr, DecidableEq, Inhabited

structure RetryPol where
  minB : Option Int
  maxB : Option Int
deriving Repr, DecidableEq, Inhabited

structure SubReq where
  name       : String
  topic      : String
  push       : Option PushCfg
  retention  : Int                 -- message_retention_duration.AsDuration() (0 when absent)
  labels     : StrMap
  ordering   : Bool
  expiration : Int                 -- expiration_policy.ttl.AsDuration() (0 when absent)
  filter     : String
  dl         : Option DlPolicy
  retry      : Option RetryPol
  detached   : Bool
deriving Repr, DecidableEq, Inhabited

inductive SeekTarget
  | none                          -- oneof not set
  | timeZero                      -- a timestamp that decodes to Go's zero time
  | time (t : Int)
  | snapshot (name : String)
deriving Repr, DecidableEq, Inhabited

inductive Rpc
  | createTopic (name : String) (labels : StrMap) (advanced : Bool) (newId : Id)
  | getTopic (name : String)
  | updateTopic (topic : Option (String × StrMap)) (paths : List String)
  | deleteTopic (name : String)
  | listTopics (project : String) (pageSize : Int) (token : Option (Option Id))   -- none: no token; some none: malformed
  | createSub (r : SubReq) (newId : Id)
  | getSub (name : String)
  | updateSub (r : Option SubReq) (paths : List String)
  | deleteSub (name : String)
  | listSubs (project : String) (pageSize : Int) (token : Option (Option Id))
  | listTopicSubs (topic : String) (pageSize : Int) (token : Option (Option Id))
  | modifyPush (name : String) (push : Option PushCfg)
  | pullCheck (name : String) (maxMessages : Int)          -- everything before the delivery transaction
  | ackCheck (name : String) (idsParse : Bool) (isAck : Bool)   -- Acknowledge / ModifyAckDeadline validation
  | seek (name : String) (target : SeekTarget)
  | createSnap (name sub : String) (labels : StrMap) (newId : Id)
  | getSnap (name : String)
  | listSnaps (project : String) (pageSize : Int) (token : Option (Option Id))
  | deleteSnap (name : String)
  | publishCheck (topic : String) (badBatch : Bool)        -- no message, or a batch [valid, payload that is not JSON]
deriving Repr, Inhabited

structure Resp where
  status : Status
  /-- canonical text of the response body (Get / List / Create / Update) -/
  body   : String := ""
  wakes  : List Id := []
deriving Repr, Inhabited

/-! ### responses -/

def deletedTopicName : String := "_deleted-topic_"

open Codec in
/-- `entSubscriptionToGrpc` with the edges loaded (Get / List / Update) -/
def showSub (db : Db) (s : Sub) (topicFallback dlFallback : String) (edges : Bool) : String :=
  let topicName :=
    if edges then
      match db.topicById s.topicId with
      | some t => if t.deletedAt.isSome then deletedTopicName else t.name
      | none => topicFallback
    else topicFallback
  -- `int32(nominalDelay.Seconds())`: a float → int32 conversion; out of range it yields the amd64
  -- "integer indefinite" value (Go leaves the result implementation-defined)
  let secs := Backoff.nominal s.minBackoff s.maxBackoff 0 / 1000000000
  let ackDeadline : Int := if secs > 2147483647 ∨ secs < -2147483648 then -2147483648 else secs
  let dl := match s.dlTopicId with
    | none => "-"
    | some dt =>
      let n := if edges then
          match db.topicById dt with
          | some t => if t.deletedAt.isSome then deletedTopicName else t.name
          | none => dlFallback
        else dlFallback
      enc n ++ "#" ++ optStr toString s.maxAttempts
  let retry := if s.minBackoff.isNone && s.maxBackoff.isNone then "-"
    else optStr toString s.minBackoff ++ "#" ++ optStr toString s.maxBackoff
  s!"name={enc s.name},topic={enc topicName},ackdl={ackDeadline},retention={s.messageTtl},labels={showMap s.labels},ordering={s.ordered},ttl={s.ttl},push={optStr enc s.pushEndpoint},filter={optStr enc s.filter},dl={dl},retry={retry}"

open Codec in
def showTopic (t : Topic) : String := s!"name={enc t.name},labels={showMap t.labels}"

open Codec in
def showSnap (db : Db) (sn : Snapshot) (topicFallback : String) (edges : Bool) : String :=
  let topicName :=
    if edges then
      match db.topicById sn.topicId with
      | some t => if t.deletedAt.isSome then deletedTopicName else t.name
      | none => topicFallback
    else topicFallback
  s!"name={enc sn.name},topic={enc topicName},expires={sn.expiresAt},labels={showMap sn.labels}"

/-! ### listing: prefix filter + keyset pagination ordered by id -/

def effPageSize (pageSize : Int) (dflt : Int) : Nat :=
  if 0 < pageSize ∧ pageSize < dflt then pageSize.toNat else dflt.toNat

/-- insertion sort by id -/
def insertId {α} (key : α → Id) (x : α) : List α → List α
  | [] => [x]
  | y :: r => if key x ≤ key y then x :: y :: r else y :: insertId key x r
def sortId {α} (key : α → Id) (l : List α) : List α := l.foldr (insertId key) []

/-- the keyset predicate of a page token -/
def afterPred {α} (key : α → Id) (after : Option Id) (r : α) : Bool :=
  match after with
  | some a => decide (a < key r)
  | none => true

/-- one page: rows satisfying `p` with id greater than `after`, in id order, at most `size`;
    the next token is the last id when the page is full -/
def listPage {α} (key : α → Id) (p : α → Bool) (rows : List α) (after : Option Id) (size : Nat) :
    List α × Option Id :=
  let sel := sortId key (rows.filter fun r => p r && afterPred key after r)
  let page := sel.take size
  (page, if size ≤ page.length then page.getLast?.map key else none)

def hasPrefix (s pre : String) : Bool := pre.toList.isPrefixOf s.toList

/-! ### update masks -/

structure SubUpdate where
  labels     : Option StrMap := none
  ttl        : Option Int := none           -- also refreshes expires_at
  messageTtl : Option Int := none
  ordered    : Option Bool := none
  minBackoff : Option (Option Int) := none
  maxBackoff : Option (Option Int) := none
  push       : Option (Option String) := none
  filter     : Option (Option String) := none
  dl         : Option (Option (Id × Int)) := none
deriving Repr, Inhabited

def SubUpdate.isEmpty (u : SubUpdate) : Bool :=
  u.labels.isNone && u.ttl.isNone && u.messageTtl.isNone && u.ordered.isNone && u.minBackoff.isNone &&
    u.maxBackoff.isNone && u.push.isNone && u.filter.isNone && u.dl.isNone

def SubUpdate.apply (u : SubUpdate) (now : Time) (s : Sub) : Sub :=
  let s := match u.labels with | some l => { s with labels := l } | none => s
  let s := match u.ttl with | some t => { s with ttl := t, expiresAt := now + t } | none => s
  let s := match u.messageTtl with | some t => { s with messageTtl := t } | none => s
  let s := match u.ordered with | some o => { s with ordered := o } | none => s
  let s := match u.minBackoff with | some b => { s with minBackoff := b } | none => s
  let s := match u.maxBackoff with | some b => { s with maxBackoff := b } | none => s
  let s := match u.push with | some p => { s with pushEndpoint := p } | none => s
  let s := match u.filter with | some f => { s with filter := f } | none => s
  match u.dl with
  | some (some (t, n)) => { s with dlTopicId := some t, maxAttempts := some n }
  | some none => { s with dlTopicId := none, maxAttempts := none }
  | none => s

/-- `validatePushConfig` (nil-safe) -/
def validatePush (p : Option PushCfg) : Option Status :=
  match p with
  | none => none
  | some c =>
    match c.attrs.find? (fun kv => kv.1 != "x-goog-version" || kv.2 != "v1") with
    | some _ => some .invalidArgument
    | none => if c.auth then some .unimplemented else none

/-- the status with which one path of an UpdateSubscription mask ends the request (`none`: the path
    is applied) -/
def pathError (db : Db) (r : SubReq) (p : String) : Option Status :=
  if p == "name" then some .invalidArgument
  else if p == "topic" then some .invalidArgument
  else if p == "labels" then none
  else if p == "expiration_policy" then none
  else if p == "message_retention_duration" then none
  else if p == "enable_message_ordering" then none
  else if p == "retry_policy" then none
  else if p == "push_config" then validatePush r.push
  else if p == "filter" then (if r.filter == "" || filterOk r.filter then none else some .invalidArgument)
  else if p == "dead_letter_policy" then
    (match r.dl with
     | none => none
     | some d => if d.topic == "" then none
                 else match db.liveTopicByName d.topic with
                   | none => some .notFound
                   | some _ => none)
  else some .invalidArgument     -- ack_deadline_seconds, retain_acked_messages, detached, unknown paths

/-- what an applied path adds to the pending update (and the dead-letter topic name to report) -/
def pathUpdate (db : Db) (r : SubReq) (p : String) (u : SubUpdate × String) : SubUpdate × String :=
  if p == "labels" then ({ u.1 with labels := some r.labels }, u.2)
  else if p == "expiration_policy" then
    ({ u.1 with ttl := some (if r.expiration == 0 then Extracted.defaultSubscriptionTTL else r.expiration) }, u.2)
  else if p == "message_retention_duration" then
    ({ u.1 with messageTtl := some (if r.retention == 0 then Extracted.defaultSubscriptionMessageTTL else r.retention) }, u.2)
  else if p == "enable_message_ordering" then ({ u.1 with ordered := some r.ordering }, u.2)
  else if p == "retry_policy" then
    ({ u.1 with minBackoff := some (match r.retry with | some rp => rp.minB | none => none),
                maxBackoff := some (match r.retry with | some rp => rp.maxB | none => none) }, u.2)
  else if p == "push_config" then
    ({ u.1 with push := some (match r.push with
        | some c => if c.endpoint == "" then none else some c.endpoint
        | none => none) }, u.2)
  else if p == "filter" then ({ u.1 with filter := some (if r.filter == "" then none else some r.filter) }, u.2)
  else if p == "dead_letter_policy" then
    (match r.dl with
     | none => ({ u.1 with dl := some none }, "")
     | some d =>
       if d.topic == "" then ({ u.1 with dl := some none }, "")
       else match db.liveTopicByName d.topic with
         | none => u
         | some t =>
           ({ u.1 with dl := some (some (t.id, if d.maxAttempts != 0 then d.maxAttempts else Extracted.defaultDeadLetterMaxAttempts)) }, t.name))
  else u

/-- one path of an UpdateSubscription mask -/
def applyPath (db : Db) (r : SubReq) (u : SubUpdate × String) (p : String) :
    Except Status (SubUpdate × String) :=
  match pathError db r p with
  | some st => .error st
  | none => .ok (pathUpdate db r p u)

def applyPaths (db : Db) (r : SubReq) : List String → SubUpdate × String → Except Status (SubUpdate × String)
  | [], u => .ok u
  | p :: rest, u =>
    match applyPath db r u p with
    | .error st => .error st
    | .ok u' => applyPaths db r rest u'

/-! ### constructor preconditions (`New…` functions that panic) -/

def newCreateSubscriptionOk (p : CreateSubParams) : Bool :=
  decide (0 < p.ttl) && decide (0 < p.messageTtl) && decide (0 ≤ p.maxAttempts) &&
    ((p.maxAttempts != 0) == !emptyName p.dlTopic)

def newGetSubscriptionMessagesOk (name : String) (maxMessages : Int) (maxBytes : Int) : Bool :=
  decide (1 ≤ maxMessages) && decide (1 ≤ maxBytes) && !emptyName name

/-! ### the handlers -/

def toParams (r : SubReq) : CreateSubParams :=
  { name := r.name, topicName := r.topic,
    ttl := if r.expiration == 0 then Extracted.defaultSubscriptionTTL else r.expiration,
    messageTtl := if r.retention == 0 then Extracted.defaultSubscriptionMessageTTL else r.retention,
    ordered := r.ordering, labels := r.labels,
    pushEndpoint := match r.push with | some c => c.endpoint | none => "",
    minBackoff := match r.retry with | some rp => rp.minB.getD 0 | none => 0,
    maxBackoff := match r.retry with | some rp => rp.maxB.getD 0 | none => 0,
    filter := r.filter,
    maxAttempts := match r.dl with
      | some d => if d.maxAttempts == 0 then Extracted.defaultDeadLetterMaxAttempts else d.maxAttempts
      | none => 0,
    dlTopic := match r.dl with | some d => d.topic | none => "" }

/-- `CreateSubscription` supports plain push endpoints only -/
def createPushCheck (p : Option PushCfg) : Option Status :=
  match p with
  | none => none
  | some c =>
    if !c.attrs.isEmpty then some .unimplemented
    else if c.auth then some .unimplemented
    else if c.unwrapped then some .unimplemented else none

def createDlCheck (dl : Option DlPolicy) : Option Status :=
  match dl with
  | some d => if emptyName d.topic then some .invalidArgument
              else if d.maxAttempts < 0 then some .invalidArgument else none
  | none => none

/-- validation of `CreateSubscription` before the action is built -/
def createSubValidate (r : SubReq) : Option Status :=
  if !isValidSubscriptionName r.name then some .invalidArgument
  else if r.detached then some .invalidArgument
  else match createPushCheck r.push with
    | some st => some st
    | none =>
      if r.expiration < 0 then some .invalidArgument
      else if r.retention < 0 then some .invalidArgument
      else createDlCheck r.dl

/-- the mask loop of `UpdateTopic`: did any path set a field? -/
def topicPaths : List String → Bool → Except Status Bool
  | [], set => .ok set
  | p :: r, set =>
    if p == "name" then .error .invalidArgument
    else if p == "labels" then topicPaths r true
    else if p == "message_storage_policy" || p == "kms_key_name" || p == "schema_settings" || p == "satisfies_pzs" then .error .unimplemented
    else .error .invalidArgument

def hCreateTopic (db : Db) (now : Time) (name : String) (labels : StrMap) (advanced : Bool) (newId : Id) : Db × Resp :=
  if !isValidTopicName name then (db, { status := .invalidArgument })
  else if advanced then (db, { status := .unimplemented })
  else if emptyName name then (db, { status := .panic })          -- NewCreateTopic precondition
  else match createTopic db now name labels newId with
    | .error e => (db, { status := ofErr e })
    | .ok o => (o.db, { status := .ok, body := showTopic { id := newId, name := name, createdAt := now, deletedAt := none, labels := labels } })

def hGetTopic (db : Db) (now : Time) (name : String) : Db × Resp :=
  if !isValidTopicName name then (db, { status := .invalidArgument })
  else match db.liveTopicByName name with
    | none => (db, { status := .notFound })
    | some t => (db, { status := .ok, body := showTopic t })

def hUpdateTopic (db : Db) (now : Time) (topic : Option (String × StrMap)) (paths : List String) : Db × Resp :=
  match topic with
  | none => (db, { status := .invalidArgument })
  | some (name, labels) =>
    if !isValidTopicName name then (db, { status := .invalidArgument })
    else match db.liveTopicByName name with
      | none => (db, { status := .notFound })
      | some t =>
        match topicPaths paths false with
        | .error st => (db, { status := st })
        | .ok false => (db, { status := .ok, body := "" })
        | .ok true =>
          let topics' := updateWhere (·.id == t.id) (fun x => { x with labels := labels }) db.topics
          ({ db with topics := topics' }, { status := .ok, body := showTopic { t with labels := labels } })

def hDeleteTopic (db : Db) (now : Time) (name : String) : Db × Resp :=
  if !isValidTopicName name then (db, { status := .invalidArgument })
  else match deleteTopic db now name with
    | .error e => (db, { status := ofErr e })
    | .ok o => (o.db, { status := .ok })

def hListTopics (db : Db) (now : Time) (project : String) (pageSize : Int) (token : Option (Option Id)) : Db × Resp :=
  match token with
  | some none => (db, { status := .invalidArgument })
  | _ =>
    let after := match token with | some (some i) => some i | _ => none
    let (page, next) := listPage (·.id) (fun (t : Topic) => hasPrefix t.name (project ++ Extracted.listTopicsSuffix) && t.live)
      db.topics after (effPageSize pageSize Extracted.listTopicsPageDefault)
    (db, { status := .ok, body := ";".intercalate (page.map showTopic) ++ "|next=" ++ Codec.optStr toString next })

def hCreateSub (db : Db) (now : Time) (r : SubReq) (newId : Id) : Db × Resp :=
  match createSubValidate r with
  | some st => (db, { status := st })
  | none =>
    let p := toParams r
    if !newCreateSubscriptionOk p then (db, { status := .panic })
    else match createSub db now p newId with
      | .error e => (db, { status := ofErr e })
      | .ok o =>
        match o.db.subById newId with
        | some s => (o.db, { status := .ok, body := showSub o.db s p.topicName p.dlTopic false, wakes := o.wakes })
        | none => (o.db, { status := .ok, wakes := o.wakes })

def hGetSub (db : Db) (now : Time) (name : String) : Db × Resp :=
  if !isValidSubscriptionName name then (db, { status := .invalidArgument })
  else match db.liveSubByName name with
    | none => (db, { status := .notFound })
    | some s => (db, { status := .ok, body := showSub db s "" "" true })

def hUpdateSub (db : Db) (now : Time) (r : Option SubReq) (paths : List String) : Db × Resp :=
  match r with
  | none => (db, { status := .invalidArgument })
  | some r =>
    if !isValidSubscriptionName r.name then (db, { status := .invalidArgument })
    else match db.liveSubByName r.name with
      | none => (db, { status := .notFound })
      | some s =>
        let dlName0 := match s.dlTopicId.bind db.topicById with | some t => t.name | none => ""
        match applyPaths db r paths ({}, dlName0) with
        | .error st => (db, { status := st })
        | .ok (u, dlName) =>
          if u.isEmpty then (db, { status := .ok, body := "" })
          else
            let s' := u.apply now s
            let subs' := updateWhere (·.id == s.id) (fun _ => s') db.subs
            let db' := { db with subs := subs' }
            let topicName := match db.topicById s.topicId with | some t => t.name | none => ""
            (db', { status := .ok, body := showSub db' s' topicName dlName false, wakes := [s.id] })

def hDeleteSub (db : Db) (now : Time) (name : String) : Db × Resp :=
  if !isValidSubscriptionName name then (db, { status := .invalidArgument })
  else match deleteSub db now name with
    | .error e => (db, { status := ofErr e })
    | .ok o => (o.db, { status := .ok, wakes := o.wakes })

def hListSubs (db : Db) (now : Time) (project : String) (pageSize : Int) (token : Option (Option Id)) : Db × Resp :=
  match token with
  | some none => (db, { status := .invalidArgument })
  | _ =>
    let after := match token with | some (some i) => some i | _ => none
    let (page, next) := listPage (·.id) (fun (s : Sub) => hasPrefix s.name (project ++ Extracted.listSubscriptionsSuffix) && s.live)
      db.subs after (effPageSize pageSize Extracted.listSubscriptionsPageDefault)
    (db, { status := .ok, body := ";".intercalate (page.map fun s => showSub db s "" "" true) ++ "|next=" ++ Codec.optStr toString next })

/-- `ListTopicSubscriptions`: the names of the live subscriptions attached to the *live row* of that
    name (a deleted incarnation's subscriptions are not the new topic's), paged by id; the token is
    looked at only after the topic was found -/
def hListTopicSubs (db : Db) (_now : Time) (topic : String) (pageSize : Int) (token : Option (Option Id)) : Db × Resp :=
  if !isValidTopicName topic then (db, { status := .invalidArgument })
  else match db.liveTopicByName topic with
    | none => (db, { status := .notFound })
    | some t =>
      match token with
      | some none => (db, { status := .invalidArgument })
      | _ =>
        let after := match token with | some (some i) => some i | _ => none
        let (page, next) := listPage (·.id) (fun (s : Sub) => s.topicId == t.id && s.live) db.subs after (effPageSize pageSize 100)
        (db, { status := .ok, body := ";".intercalate (page.map fun s => "name=" ++ Codec.enc s.name) ++ "|next=" ++ Codec.optStr toString next })

def hModifyPush (db : Db) (now : Time) (name : String) (push : Option PushCfg) : Db × Resp :=
  if !isValidSubscriptionName name then (db, { status := .invalidArgument })
  else match validatePush push with
    | some st => (db, { status := st })
    | none =>
      match db.liveSubByName name with
      | none => (db, { status := .notFound })
      | some s =>
        let ep := match push with | some c => c.endpoint | none => ""
        let subs' := updateWhere (·.id == s.id) (fun x => { x with pushEndpoint := if ep == "" then none else some ep }) db.subs
        ({ db with subs := subs' }, { status := .ok, wakes := [s.id] })

def hPullCheck (db : Db) (now : Time) (name : String) (maxMessages : Int) : Db × Resp :=
  if !isValidSubscriptionName name then (db, { status := .invalidArgument })
  else if maxMessages < 1 then (db, { status := .invalidArgument })
  else if !newGetSubscriptionMessagesOk name maxMessages (10 * 1024 * 1024) then (db, { status := .panic })
  else match db.liveSubByName name with
    | none => (db, { status := .notFound })
    | some _ => (db, { status := .ok })

def hAckCheck (db : Db) (now : Time) (name : String) (idsParse : Bool) (isAck : Bool) : Db × Resp :=
  if !isValidSubscriptionName name then (db, { status := .invalidArgument })
  -- a malformed ack id: Acknowledge answers InvalidArgument, ModifyAckDeadline passes the parse
  -- error through AsStatusError (Unknown)
  else if !idsParse then (db, { status := if isAck then .invalidArgument else .unknown })
  else (db, { status := .ok })

def hSeek (db : Db) (now : Time) (name : String) (target : SeekTarget) : Db × Resp :=
  if !isValidSubscriptionName name then (db, { status := .invalidArgument })
  else match target with
    | .none => (db, { status := .invalidArgument })
    | .timeZero => (db, { status := .invalidArgument })
    | .time t =>
      if emptyName name then (db, { status := .panic })
      else match seekTime db now name t with
        | .error e => (db, { status := ofErr e })
        | .ok o => (o.db, { status := .ok, wakes := o.wakes })
    | .snapshot sn =>
      if !isValidSnapshotName sn then (db, { status := .invalidArgument })
      else if emptyName name || emptyName sn then (db, { status := .panic })
      else match seekSnap db now name sn with
        | .error e => (db, { status := ofErr e })
        | .ok o => (o.db, { status := .ok, wakes := o.wakes })

def hCreateSnap (db : Db) (now : Time) (name sub : String) (labels : StrMap) (newId : Id) : Db × Resp :=
  if !isValidSnapshotName name then (db, { status := .invalidArgument })
  else if !isValidSubscriptionName sub then (db, { status := .invalidArgument })
  else if emptyName name || emptyName sub then (db, { status := .panic })
  else match createSnapshot db now name sub labels newId with
    | .error e => (db, { status := ofErr e })
    | .ok o =>
      match o.db.snapByName name with
      | some sn =>
        let tn := match (db.liveSubByName sub).bind (fun s => db.topicById s.topicId) with | some t => t.name | none => ""
        (o.db, { status := .ok, body := showSnap o.db sn tn false })
      | none => (o.db, { status := .ok })

def hGetSnap (db : Db) (now : Time) (name : String) : Db × Resp :=
  if !isValidSnapshotName name then (db, { status := .invalidArgument })
  else match db.snapByName name with
    | none => (db, { status := .notFound })
    | some sn => (db, { status := .ok, body := showSnap db sn "" true })

def hListSnaps (db : Db) (now : Time) (project : String) (pageSize : Int) (token : Option (Option Id)) : Db × Resp :=
  match token with
  | some none => (db, { status := .invalidArgument })
  | _ =>
    let after := match token with | some (some i) => some i | _ => none
    let (page, next) := listPage (·.id) (fun (sn : Snapshot) => hasPrefix sn.name (project ++ Extracted.listSnapshotsSuffix))
      db.snaps after (effPageSize pageSize Extracted.listSnapshotsPageDefault)
    (db, { status := .ok, body := ";".intercalate (page.map fun sn => showSnap db sn "" true) ++ "|next=" ++ Codec.optStr toString next })

def hDeleteSnap (db : Db) (now : Time) (name : String) : Db × Resp :=
  if !isValidSnapshotName name then (db, { status := .invalidArgument })
  else match deleteSnapshot db name with
    | .error e => (db, { status := ofErr e })
    | .ok o => (o.db, { status := .ok })

def hPublishCheck (db : Db) (now : Time) (topic : String) (badBatch : Bool) : Db × Resp :=
  if !isValidTopicName topic then (db, { status := .invalidArgument })
  else match db.liveTopicByName topic with
    | none => (db, { status := .notFound })
    | some _ =>
      -- a message whose payload is not JSON fails the whole batch: one transaction, nothing is stored
      if badBatch then (db, { status := .unknown }) else (db, { status := .ok })

/-- dispatch -/
def handle (db : Db) (now : Time) : Rpc → Db × Resp
  | .createTopic name labels advanced newId => hCreateTopic db now name labels advanced newId
  | .getTopic name => hGetTopic db now name
  | .updateTopic topic paths => hUpdateTopic db now topic paths
  | .deleteTopic name => hDeleteTopic db now name
  | .listTopics project pageSize token => hListTopics db now project pageSize token
  | .createSub r newId => hCreateSub db now r newId
  | .getSub name => hGetSub db now name
  | .updateSub r paths => hUpdateSub db now r paths
  | .deleteSub name => hDeleteSub db now name
  | .listSubs project pageSize token => hListSubs db now project pageSize token
  | .listTopicSubs topic pageSize token => hListTopicSubs db now topic pageSize token
  | .modifyPush name push => hModifyPush db now name push
  | .pullCheck name maxMessages => hPullCheck db now name maxMessages
  | .ackCheck name idsParse isAck => hAckCheck db now name idsParse isAck
  | .seek name target => hSeek db now name target
  | .createSnap name sub labels newId => hCreateSnap db now name sub labels newId
  | .getSnap name => hGetSnap db now name
  | .listSnaps project pageSize token => hListSnaps db now project pageSize token
  | .deleteSnap name => hDeleteSnap db now name
  | .publishCheck topic bad => hPublishCheck db now topic bad

end Mmmbbb.Api
