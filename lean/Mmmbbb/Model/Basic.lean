/-
Model of the SQL state of mmmbbb: the five tables of `ent/schema/message-bus.go`, column for column.

* ids are `Nat` carrying the 128-bit UUID value (so UUID order = `Nat` order),
* times are `Int` nanoseconds on the virtual clock (0 = start of the harness' fake clock),
* intervals are `Int` nanoseconds, optional columns are `Option`.

Core Lean only: this file is linked into the `driver` executable.
-/
namespace Mmmbbb

abbrev Time := Int
abbrev Id := Nat
abbrev StrMap := List (String × String)

structure Topic where
  id        : Id
  name      : String
  createdAt : Time
  /-- `live` is `true` exactly when `deletedAt` is NULL (`checkLiveOrDeleted` hook). -/
  deletedAt : Option Time
  labels    : StrMap
deriving Repr, DecidableEq, Inhabited

structure Sub where
  id            : Id
  topicId       : Id
  name          : String
  createdAt     : Time
  expiresAt     : Time
  deletedAt     : Option Time
  ttl           : Int
  messageTtl    : Int
  ordered       : Bool
  labels        : StrMap
  minBackoff    : Option Int
  maxBackoff    : Option Int
  pushEndpoint  : Option String
  filter        : Option String
  maxAttempts   : Option Int
  dlTopicId     : Option Id
  deliveryDelay : Int
deriving Repr, DecidableEq, Inhabited

structure Msg where
  id          : Id
  topicId     : Id
  /-- opaque token standing for the JSON value -/
  payload     : String
  /-- `len(payload)` as stored: what flow control counts -/
  plen        : Nat
  attrs       : StrMap
  publishedAt : Time
  orderKey    : Option String
deriving Repr, DecidableEq, Inhabited

structure Delivery where
  id              : Id
  msgId           : Id
  subId           : Id
  publishedAt     : Time
  attemptAt       : Time
  lastAttemptedAt : Option Time
  attempts        : Nat
  completedAt     : Option Time
  expiresAt       : Time
  notBefore       : Option Id
deriving Repr, DecidableEq, Inhabited

structure Snapshot where
  id          : Id
  topicId     : Id
  name        : String
  createdAt   : Time
  expiresAt   : Time
  labels      : StrMap
  ackedBefore : Time
  ackedIds    : List Id
deriving Repr, DecidableEq, Inhabited

structure Db where
  topics : List Topic := []
  subs   : List Sub := []
  msgs   : List Msg := []
  dels   : List Delivery := []
  snaps  : List Snapshot := []
deriving Repr, DecidableEq, Inhabited

/-- error classes an action can end with -/
inductive Err
  | notFound
  | exists
  | invalid (why : String)
  /-- a `DELETE` hit a `NO ACTION` foreign key -/
  | fk
  /-- the observation carried by the operation line is not one the model allows:
      a correspondence failure, never a behaviour of the system -/
  | badObs (why : String)
deriving Repr, DecidableEq, Inhabited

def Err.cls : Err → String
  | .notFound => "NotFound"
  | .exists => "AlreadyExists"
  | .invalid _ => "InvalidArgument"
  | .fk => "Unknown"
  | .badObs w => "BADOBS:" ++ w

/-! ### relational kit -/

/-- `UPDATE t SET … WHERE p` -/
def updateWhere {α} (p : α → Bool) (f : α → α) (l : List α) : List α :=
  l.map fun x => if p x then f x else x

/-- number of rows an `UPDATE … WHERE p` touches -/
def countWhere {α} (p : α → Bool) (l : List α) : Nat := (l.filter p).length

def Topic.live (t : Topic) : Bool := t.deletedAt.isNone
def Sub.live (s : Sub) : Bool := s.deletedAt.isNone

def Db.topicById (db : Db) (i : Id) : Option Topic := db.topics.find? (·.id == i)
def Db.subById (db : Db) (i : Id) : Option Sub := db.subs.find? (·.id == i)
def Db.msgById (db : Db) (i : Id) : Option Msg := db.msgs.find? (·.id == i)
def Db.delById (db : Db) (i : Id) : Option Delivery := db.dels.find? (·.id == i)

def Db.liveTopicByName (db : Db) (n : String) : Option Topic :=
  db.topics.find? fun t => t.name == n && t.live
def Db.liveSubByName (db : Db) (n : String) : Option Sub :=
  db.subs.find? fun s => s.name == n && s.live
def Db.snapByName (db : Db) (n : String) : Option Snapshot :=
  db.snaps.find? (·.name == n)

/-- live subscriptions attached to a topic (`WithSubscriptions(DeletedAtIsNil)`) -/
def Db.liveSubsOf (db : Db) (topicId : Id) : List Sub :=
  db.subs.filter fun s => s.topicId == topicId && s.live

def Sub.hasFullDeadLetterConfig (s : Sub) : Bool :=
  match s.maxAttempts, s.dlTopicId with
  | some n, some _ => decide (0 < n)
  | _, _ => false

/-- every id that names a row of any table: new rows must be fresh w.r.t. this -/
def Db.allIds (db : Db) : List Id :=
  db.topics.map (·.id) ++ db.subs.map (·.id) ++ db.msgs.map (·.id) ++ db.dels.map (·.id)
    ++ db.snaps.map (·.id)

/-! ### delivery predicates (`buildDeliveryQuery`) -/

/-- `completed_at IS NULL AND expires_at > now` -/
def Delivery.isOpen (now : Time) (d : Delivery) : Bool :=
  d.completedAt.isNone && decide (now < d.expiresAt)

/-- the ordered-delivery LEFT JOIN: no predecessor, or predecessor completed or expired.
    A dangling reference cannot exist (FK `SET NULL`); SQL would exclude such a row. -/
def Db.predDone (db : Db) (now : Time) (d : Delivery) : Bool :=
  match d.notBefore with
  | none => true
  | some p =>
    match db.delById p with
    | none => false
    | some q => q.completedAt.isSome || decide (q.expiresAt ≤ now)

/-- a row the delivery query of a pull on `s` at `now` returns (before `ORDER BY … LIMIT`) -/
def Db.eligible (db : Db) (s : Sub) (now : Time) (d : Delivery) : Bool :=
  d.subId == s.id && d.isOpen now && decide (d.attemptAt ≤ now) &&
    (!s.ordered || db.predDone now d)

end Mmmbbb
