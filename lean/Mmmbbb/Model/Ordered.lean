/-
Ordered delivery as a refinement obligation.

The global statement of C05 ("a keyed message is never deliverable while an earlier same-key message
of the subscription is outstanding") is proved in `Proofs/Ordered.lean` for every sequence of states
in which each consecutive pair satisfies `stepOk` below: the deliveries table either *grows* (rows
are updated in place — only forwards, and a row is handed out / completed for the first time only
when its predecessor link allowed it — and new rows are appended with a link to the newest same-key
row that is still inside its retention) or *shrinks* (rows that are not outstanding are removed and
the links to them cleared).  Every operation of the store except the two seeks is meant to be of one
of these two shapes; the driver evaluates `stepOk` on every step of every replayed history, which
is the run-time side of that refinement (`Properties/C05.lean` proves it outright for the operations
that do not touch the deliveries table).

Core Lean only: this file is linked into the `driver` executable.
-/
import Mmmbbb.Model.Basic
namespace Mmmbbb.Ord

/-- the non-empty ordering key of the message a delivery row belongs to -/
def keyOf (db : Db) (d : Delivery) : Option String :=
  match db.msgById d.msgId with
  | some m =>
    match m.orderKey with
    | some k => if k == "" then none else some k
    | none => none
  | none => none

/-- is `x` the id of a live subscription with message ordering -/
def liveOrd (db : Db) (x : Id) : Bool := db.subs.any fun s => s.id == x && s.live && s.ordered

/-- live subscriptions keep their identity (ordering flag, retention); a new one has no rows yet -/
def subsOk (db db' : Db) : Bool :=
  db'.subs.all fun s' => !s'.live ||
    (db.subs.any fun s => s.live && s.id == s'.id && s.ordered == s'.ordered && s.messageTtl == s'.messageTtl) ||
    (db'.dels.all fun d => d.subId != s'.id)

/-- an in-place update of one row: identity, times and link stay, completion and the attempt counter
    only move forward, and on a live ordered subscription a keyed row is handed out or completed for
    the first time only when its predecessor link allows it -/
def rowUpdOk (db : Db) (now : Time) (db' : Db) (d d' : Delivery) : Bool :=
  d'.id == d.id && d'.msgId == d.msgId && d'.subId == d.subId && d'.publishedAt == d.publishedAt &&
  d'.expiresAt == d.expiresAt && d'.notBefore == d.notBefore &&
  (d.completedAt.isNone || d'.completedAt.isSome) && decide (d.attempts ≤ d'.attempts) &&
  (keyOf db' d' == keyOf db d) &&
  (!(decide (d.attempts < d'.attempts) || (d.completedAt.isNone && d'.completedAt.isSome)) ||
     !(liveOrd db d.subId) || (keyOf db d).isNone || decide (0 < d.attempts) || db.predDone now d)

def rowsUpdOk (db : Db) (now : Time) (db' : Db) : List Delivery → List Delivery → Bool
  | [], [] => true
  | d :: r, d' :: r' => rowUpdOk db now db' d d' && rowsUpdOk db now db' r r'
  | _, _ => false

/-- the rows a new keyed row may be linked behind: same subscription, same key, inside their
    retention at the new row's publish instant (`deliverToSubscription`'s predecessor query) -/
def cands (db' : Db) (T : List Delivery) (r : Delivery) : List Delivery :=
  T.filter fun e => e.subId == r.subId && decide (r.publishedAt < e.expiresAt) && (keyOf db' e == keyOf db' r)

/-- a row appended to the table `T` -/
def rowNewOk (now : Time) (db' : Db) (now' : Time) (T : List Delivery) (r : Delivery) : Bool :=
  decide (now ≤ r.publishedAt) && decide (r.publishedAt ≤ now') &&
  (db'.subs.all fun s => !(s.live && s.id == r.subId) || r.expiresAt == r.publishedAt + s.messageTtl) &&
  r.completedAt.isNone && r.attempts == 0 &&
  (T.all fun e => e.id != r.id) &&
  (!(liveOrd db' r.subId) || (keyOf db' r).isNone ||
    (match r.notBefore with
     | none => (cands db' T r).isEmpty
     | some p => (cands db' T r).any fun q => q.id == p && (cands db' T r).all fun e => decide (e.publishedAt ≤ q.publishedAt)))

/-- the clock assumption: a keyed row of an ordered subscription is stamped strictly later than every
    same-key row the subscription already has (every insert reads the clock anew) -/
def stampOk (db' : Db) (T : List Delivery) (r : Delivery) : Bool :=
  !(liveOrd db' r.subId) || (keyOf db' r).isNone ||
    T.all fun e => !(e.subId == r.subId && keyOf db' e == keyOf db' r) || decide (e.publishedAt < r.publishedAt)

/-- rows appended one after the other; `stamps` switches the clock assumption on -/
def appendOk (stamps : Bool) (now : Time) (db' : Db) (now' : Time) : List Delivery → List Delivery → Bool
  | _, [] => true
  | T, r :: rest =>
    rowNewOk now db' now' T r && (!stamps || stampOk db' T r) && appendOk stamps now db' now' (T ++ [r]) rest

def growOk (stamps : Bool) (db : Db) (now : Time) (db' : Db) (now' : Time) : Bool :=
  let n := db.dels.length
  rowsUpdOk db now db' db.dels (db'.dels.take n) && appendOk stamps now db' now' (db'.dels.take n) (db'.dels.drop n)

/-- ids of rows that are gone -/
def removedIds (l l' : List Delivery) : List Id := (l.map (·.id)).filter fun i => !(l'.any (·.id == i))

/-- FK `ON DELETE SET NULL` of the predecessor link -/
def clr (R : List Id) (d : Delivery) : Delivery :=
  match d.notBefore with
  | some p => if R.contains p then { d with notBefore := none } else d
  | none => d

def shrinkOk (db : Db) (now : Time) (db' : Db) : Bool :=
  let R := removedIds db.dels db'.dels
  (db'.dels == (db.dels.filter fun d => !R.contains d.id).map (clr R)) &&
  (db.dels.all fun d => !R.contains d.id || !(liveOrd db d.subId) || !(d.isOpen now)) &&
  (db.dels.all fun d => R.contains d.id || keyOf db' d == keyOf db d)

/-- one step of the store, as far as ordered delivery is concerned -/
def stepOk (stamps : Bool) (db : Db) (now : Time) (db' : Db) (now' : Time) : Bool :=
  decide (now ≤ now') && subsOk db db' && (growOk stamps db now db' now' || shrinkOk db now db')

end Mmmbbb.Ord
