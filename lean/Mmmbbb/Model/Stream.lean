/-
Flow control of a streaming pull (actions/message-streamer.go:Go, sender / reader / refresh
goroutines; byte budget of actions/get-subscription-messages.go:applyResults), as a state machine
over the events that touch the shared `pending` map.

`pending`  — ack ids sent on this stream and not yet settled *as far as the streamer knows*
`out`      — ack ids sent on this stream and not yet acknowledged, nacked or expired (the truth)
`budget`   — parameters of the fetch in flight (MaxMessages, MaxBytes, MaxBytesStrict)
`token`    — the buffered `wakeSend` channel
`waiting`  — the sender is blocked in the flow-control select
`hi`       — the largest limits the client has asked for so far (the limits, when they never shrink)
-/
import Mmmbbb.Extracted
namespace Mmmbbb.Stream

structure Fc where
  msgs  : Int
  bytes : Int
deriving DecidableEq, Repr, Inhabited

structure St where
  fc      : Fc := ⟨1, 1⟩
  hi      : Fc := ⟨1, 1⟩
  pending : List (Nat × Nat) := []
  out     : List Nat := []
  budget  : Option (Nat × Int × Bool) := none
  token   : Bool := false
  waiting : Bool := false
  /-- the sender's `anyPending` flag: set by any pass of its capacity loop that saw something
      pending, cleared only when a fetch starts -/
  sawPending : Bool := false
  /-- ids the reader found pending before it told the database about their ack / nack and has not yet
      removed from `pending` (the reader is between its COMMIT and its update of the map) -/
  releasing : List Nat := []
  /-- shape of the reader's update of the map (from the source, `Extracted.streamerReaderReleases`):
      it removes only the entries it saw before the database call — an id that was sent again in the
      meantime has a fresh entry, which stays -/
  guarded : Bool := true
  /-- ids that are acknowledged or expired in the database through something else than this stream's
      own reader (an Acknowledge call made outside it, the end of the retention) -/
  done : List Nat := []
  /-- a notification for the refresh goroutine is outstanding (every acknowledgement notifies the
      subscription's listeners; the refresher renews its awaiter before it looks at the database) -/
  dirty : Bool := false
  /-- shape of the sender (from the source, `Extracted.streamerBooksBeforeSend`): the fetched deliveries
      are entered into `pending` before they are sent; when false they wait in `unbooked` until `lateBook` -/
  bookFirst : Bool := true
  unbooked : List (Nat × Nat) := []
deriving Repr, Inhabited

def bytesOf : List (Nat × Nat) → Int
  | [] => 0
  | (_, b) :: r => (b : Int) + bytesOf r

/-- applyResults' budget loop: candidate `i` is skipped when `(strict ∨ i > 0) ∧ bytes + size > MaxBytes` -/
def select (strict : Bool) (maxBytes : Int) : List (Nat × Nat) → Nat → Int → List (Nat × Nat)
  | [], _, _ => []
  | (id, sz) :: rest, i, bytes =>
    if (strict || decide (0 < i)) && decide (maxBytes < bytes + (sz : Int)) then select strict maxBytes rest (i + 1) bytes
    else (id, sz) :: select strict maxBytes rest (i + 1) (bytes + sz)

def removeIds (p : List (Nat × Nat)) (ids : List Nat) : List (Nat × Nat) := p.filter (fun x => !ids.contains x.1)

/-- `pending[id] = …` for every delivery of the batch -/
def insertAll (p sel : List (Nat × Nat)) : List (Nat × Nat) := removeIds p (sel.map (·.1)) ++ sel

inductive Ev where
  /-- the client's flow-control message -/
  | setFc (m b : Int)
  /-- the sender computes what is left of the limits: starts a fetch or blocks -/
  | loop
  /-- the blocked sender takes the wake token (or a publish notification: `spurious`) -/
  | wake (spurious : Bool)
  /-- the fetch's query returned these candidates, oldest first (the LIMIT is applied here) -/
  | query (cands : List (Nat × Nat))
  /-- the fetch returned without a query result (its own timeout) -/
  | fetchEmpty
  /-- ack / nack / zero-deadline on the stream -/
  | settle (ids : List Nat)
  /-- first half of an ack / nack / zero-deadline on the stream: the reader has snapshotted the entries
      and its transaction has committed (the messages are no longer outstanding; a nacked one is
      deliverable again) -/
  | settleCommit (ids : List Nat)
  /-- second half: the reader updates the map and leaves a wake token -/
  | settleBook
  /-- Acknowledge / expiry outside the stream -/
  | extSettle (ids : List Nat)
  /-- the refresh goroutine looks up every pending id in the database and drops the ones that are
      completed or expired there -/
  | refresh
  /-- (only for a sender that sends first) the sent deliveries are entered into `pending` -/
  | lateBook
deriving Repr

def maxFc (a b : Fc) : Fc := ⟨if a.msgs ≤ b.msgs then b.msgs else a.msgs, if a.bytes ≤ b.bytes then b.bytes else a.bytes⟩

def step (s : St) : Ev → St
  | .setFc m b => { s with fc := ⟨m, b⟩, hi := maxFc s.hi ⟨m, b⟩, token := true }
  | .loop =>
    match s.budget with
    | some _ => s     -- a fetch is in flight: the sender is inside it
    | none =>
      if s.waiting then s else
      let m := s.fc.msgs - s.pending.length
      let b := s.fc.bytes - bytesOf s.pending
      if 0 < b ∧ 0 < m then
        { s with budget := some ((if m ≤ 100 then m.toNat else 100), b, !s.pending.isEmpty || s.sawPending), sawPending := false }
      else { s with waiting := true, sawPending := s.sawPending || !s.pending.isEmpty }
  | .wake spurious =>
    if s.waiting ∧ (s.token ∨ spurious) then { s with waiting := false, token := if spurious then s.token else false } else s
  | .query cands =>
    match s.budget with
    | none => s
    | some (m, b, strict) =>
      let sel := select strict b (cands.take m) 0 0
      { s with pending := if s.bookFirst then insertAll s.pending sel else s.pending,
               unbooked := if s.bookFirst then s.unbooked else s.unbooked ++ sel,
               out := s.out.filter (fun i => !(sel.map (·.1)).contains i) ++ sel.map (·.1),
               budget := none,
               releasing := if s.guarded then s.releasing.filter (fun i => !(sel.map (·.1)).contains i) else s.releasing }
  | .fetchEmpty => { s with budget := none }
  | .settle ids => { s with pending := removeIds s.pending ids, out := s.out.filter (fun i => !ids.contains i), token := true }
  | .settleCommit ids =>
    { s with out := s.out.filter (fun i => !ids.contains i),
             releasing := s.releasing ++ ids.filter (fun i => (s.pending.map (·.1)).contains i) }
  | .settleBook => { s with pending := removeIds s.pending s.releasing, releasing := [], token := true }
  | .extSettle ids => { s with out := s.out.filter (fun i => !ids.contains i), done := s.done ++ ids, dirty := true }
  | .refresh =>
    -- what is settled in the database (and not sent again since) is removed
    let g := s.done.filter (fun i => !s.out.contains i)
    { s with pending := removeIds s.pending g, token := s.token || (s.pending.any (fun x => g.contains x.1)), dirty := false }
  | .lateBook => { s with pending := insertAll s.pending s.unbooked, unbooked := [] }

/-- the initial state, with the shape of the reader's map update read off the source -/
def St.ofSource : St :=
  { guarded := Extracted.streamerReaderReleases.all (· == "guarded") && !Extracted.streamerReaderReleases.isEmpty,
    bookFirst := Extracted.streamerBooksBeforeSend.all (· == "book-first") && !Extracted.streamerBooksBeforeSend.isEmpty }

def run (s : St) : List Ev → St
  | [] => s
  | e :: r => run (step s e) r

end Mmmbbb.Stream
