/-
HTTP push (`actions/http-push-streamer.go`): outcome classification and the adaptive window.
-/
import Mmmbbb.Extracted
namespace Mmmbbb.Push

inductive Outcome
  | ack (fast : Bool)     -- success status; fast = answered in under one second
  | nack                  -- any other final status, or a transport error
deriving Repr, DecidableEq, Inhabited

/-- what the response of one push means for the delivery -/
def classify (status : Option Nat) (fast : Bool) : Outcome :=
  match status with
  | none => .nack                                       -- transport error
  | some code => if Extracted.pushSuccessCodes.contains code then .ack fast else .nack

/-- window bounds and steps, read off the source: `pushWindowConsts` are the distinct integer constants
    of `httpPushStreamConn.Receive` and the helpers it calls, ascending — exactly three, the floor, the
    nack factor and the ceiling (`C19.window_consts`); *how* the code uses them is what the
    correspondence run of the window trajectory compares -/
def windowMax : Int := Extracted.pushWindowConsts.getD 2 0
def windowMin : Int := Extracted.pushWindowConsts.getD 0 0
def nackFactor : Int := Extracted.pushWindowConsts.getD 1 0

inductive Batch
  | fastAcks (n : Nat)
  | slowAcks (n : Nat)
  | nacks (n : Nat)
deriving Repr, DecidableEq, Inhabited

/-- `httpPushStreamConn.Receive`: how one drained queue changes `maxMessages` -/
def windowStep (w : Int) : Batch → Int
  | .fastAcks n => if w < windowMax then (if w + n > windowMax then windowMax else w + n) else w
  | .slowAcks n => if w > windowMin then (if w - n < windowMin then windowMin else w - n) else w
  | .nacks n => if w > windowMin then (if w - nackFactor * n < windowMin then windowMin else w - nackFactor * n) else w

def windowRun (w : Int) (bs : List Batch) : Int := bs.foldl windowStep w

/-- the streamer starts with a window of one message -/
def windowInit : Int := 1

end Mmmbbb.Push
