/-
HTTP push (`actions/http-push-streamer.go`): outcome classification and the adaptive window.
-/
import Mmmbbb.Extracted
namespace Mmmbbb.Push

inductive Outcome
  | ack (fast : Bool)     -- success status; fast = answered in under one second
  | nack                  -- any other final status, or a transport error
deriving Repr, DecidableEq, Inhabited

/-- what the response of one push means for the delivery -/
def classify (status : Option Nat) (fast : Bool) : Outcome :=
  match status with
  | none => .nack                                       -- transport error
  | some code => if Extracted.pushSuccessCodes.contains code then .ack fast else .nack

/-- window bounds and steps, read off the source (`pushReceiveLits`: 1000 1000 1000 1 1 1 1 10 1 1) -/
def windowMax : Int := Extracted.pushReceiveLits.getD 0 0
def windowMin : Int := Extracted.pushReceiveLits.getD 3 0
def nackFactor : Int := Extracted.pushReceiveLits.getD 7 0

inductive Batch
  | fastAcks (n : Nat)
  | slowAcks (n : Nat)
  | nacks (n : Nat)
deriving Repr, DecidableEq, Inhabited

/-- `httpPushStreamConn.Receive`: how one drained queue changes `maxMessages` -/
def windowStep (w : Int) : Batch → Int
  | .fastAcks n => if w < windowMax then (if w + n > windowMax then windowMax else w + n) else w
  | .slowAcks n => if w > windowMin then (if w - n < windowMin then windowMin else w - n) else w
  | .nacks n => if w > windowMin then (if w - nackFactor * n < windowMin then windowMin else w - nackFactor * n) else w

def windowRun (w : Int) (bs : List Batch) : Int := bs.foldl windowStep w

/-- the streamer starts with a window of one message -/
def windowInit : Int := 1

end Mmmbbb.Push
