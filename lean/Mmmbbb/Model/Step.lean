/-
The state machine the history properties are stated over: `St` (the five tables and the clock),
`Op` (one client request, background job run or clock advance, with the observations that resolve
SQL nondeterminism) and `step`.
-/
import Mmmbbb.Model.Actions
import Mmmbbb.Model.Codec
namespace Mmmbbb

structure St where
  db  : Db := {}
  now : Time := 0
deriving Repr, Inhabited

inductive Op
  | advance (d : Int)
  | createTopic (name : String) (labels : StrMap) (newId : Id)
  | deleteTopic (name : String)
  | createSub (p : CreateSubParams) (newId : Id)
  | deleteSub (name : String)
  | publish (topic : String) (tick : Int) (msgs : List PubMsg)
  | pull (sub : String) (max maxBytes : Nat) (strict : Bool) (wait : Int) (obs : PullObs)
  | ack (ids : List Id)
  | nack (ids : List Id) (delays : List (Id × Int)) (fwds : List (Id × List Fwd))
  | delay (ids : List Id) (d : Int)
  | dlSweep (max : Nat) (victims : List Id) (fwds : List (Id × List Fwd))
  | seekTime (sub : String) (t : Time)
  | seekSnap (sub snap : String)
  | snapshot (name sub : String) (labels : StrMap) (newId : Id)
  | deleteSnap (name : String)
  | setDelay (sub : String) (d : Int)
  | expireSubs (max : Nat) (victims : List Id)
  | pruneCompletedDeliveries (minAge : Int) (max : Nat) (victims : List Id)
  | pruneExpiredDeliveries (max : Nat) (victims : List Id)
  | pruneCompletedMessages (minAge : Int) (max : Nat) (victims : List Id)
  | pruneDeletedSubDeliveries (minAge : Int) (max : Nat) (victims : List Id)
  | pruneDeletedSubs (minAge : Int) (max : Nat) (victims : List Id)
  | pruneDeletedTopics (minAge : Int) (max : Nat) (victims : List Id)
deriving Repr, Inhabited

/-- what the caller (and the waiters) observe of one step -/
structure Out where
  /-- `ok…` or `E:<class>` -/
  resp  : String
  /-- did the operation succeed (false: an error response, nothing committed) -/
  ok    : Bool := true
  /-- subscriptions whose waiters were woken -/
  wakes : List Id := []
  /-- pull responses: (delivery id, attempt number) in response order -/
  delivered : List (Id × Nat) := []
deriving Repr, DecidableEq, Inhabited

def Out.isOk (o : Out) : Bool := o.ok

/-- commit a transaction result, or leave the state alone on error -/
def finish {α} (st : St) (r : Except Err (TxOut α)) (render : α → String) : St × Out :=
  match r with
  | .ok o => ({ st with db := o.db }, { resp := render o.val, wakes := o.wakes })
  | .error e => (st, { resp := "E:" ++ e.cls, ok := false })

def showPull (r : PullRes) : String :=
  "ok:" ++ ",".intercalate (r.delivered.map fun (i, n) => s!"{i}#{n}") ++ s!";dl={r.numDL}"

def step (st : St) : Op → St × Out
  | .advance d => ({ st with now := st.now + d }, { resp := "ok" })
  | .createTopic n l i => finish st (createTopic st.db st.now n l i) fun _ => "ok"
  | .deleteTopic n => finish st (deleteTopic st.db st.now n) fun k => s!"ok:{k}"
  | .createSub p i => finish st (createSub st.db st.now p i) fun _ => "ok"
  | .deleteSub n => finish st (deleteSub st.db st.now n) fun k => s!"ok:{k}"
  | .publish t tick ms =>
    match publish st.db st.now t tick ms with
    | .ok o => ({ db := o.db, now := st.now + tick * ms.length }, { resp := "ok", wakes := o.wakes })
    | .error e => (st, { resp := "E:" ++ e.cls, ok := false })
  | .pull s mx mb strict wait obs =>
    match pull st.db st.now s mx mb strict wait obs with
    | .ok (o, now') =>
      ({ db := o.db, now := now' }, { resp := showPull o.val, wakes := o.wakes, delivered := o.val.delivered })
    | .error e => (st, { resp := "E:" ++ e.cls, ok := false })
  | .ack ids => finish st (ack st.db st.now ids) fun k => s!"ok:{k}"
  | .nack ids ds fw => finish st (nack st.db st.now ids ds fw) fun (a, b) => s!"ok:{a},{b}"
  | .delay ids d => finish st (delay st.db st.now ids d) fun k => s!"ok:{k}"
  | .dlSweep mx v fw => finish st (dlSweep st.db st.now mx v fw) fun k => s!"ok:{k}"
  | .seekTime s t => finish st (seekTime st.db st.now s t) fun (a, b) => s!"ok:{a},{b}"
  | .seekSnap s n => finish st (seekSnap st.db st.now s n) fun (a, b) => s!"ok:{a},{b}"
  | .snapshot n s l i => finish st (createSnapshot st.db st.now n s l i) fun _ => "ok"
  | .deleteSnap n => finish st (deleteSnapshot st.db n) fun _ => "ok"
  | .setDelay n d => finish st (setDelay st.db n d) fun _ => "ok"
  | .expireSubs mx v => finish st (expireSubs st.db st.now mx v) fun k => s!"ok:{k}"
  | .pruneCompletedDeliveries a mx v => finish st (pruneCompletedDeliveries st.db st.now a mx v) fun k => s!"ok:{k}"
  | .pruneExpiredDeliveries mx v => finish st (pruneExpiredDeliveries st.db st.now mx v) fun k => s!"ok:{k}"
  | .pruneCompletedMessages a mx v => finish st (pruneCompletedMessages st.db st.now a mx v) fun k => s!"ok:{k}"
  | .pruneDeletedSubDeliveries a mx v => finish st (pruneDeletedSubDeliveries st.db st.now a mx v) fun k => s!"ok:{k}"
  | .pruneDeletedSubs a mx v => finish st (pruneDeletedSubs st.db st.now a mx v) fun k => s!"ok:{k}"
  | .pruneDeletedTopics a mx v => finish st (pruneDeletedTopics st.db st.now a mx v) fun k => s!"ok:{k}"

def run (st : St) (ops : List Op) : St := ops.foldl (fun s o => (step s o).1) st

/-- the outputs of a run, in order -/
def outs : St → List Op → List Out
  | _, [] => []
  | st, op :: r => (step st op).2 :: outs (step st op).1 r

/-- pre-state and output of every step of a run -/
def trace : St → List Op → List (St × Out)
  | _, [] => []
  | st, op :: r => (st, (step st op).2) :: trace (step st op).1 r

/-- operations that cannot shorten a lease: everything except nacks, non-positive deadline
    modifications, seeks and the delivery prune jobs (the exceptions the property names) -/
def Op.keepsLease : Op → Bool
  | .nack .. => false
  | .delay _ d => decide (0 < d)
  | .seekTime .. => false
  | .seekSnap .. => false
  | .pruneCompletedDeliveries .. => false
  | .pruneExpiredDeliveries .. => false
  | .pruneDeletedSubDeliveries .. => false
  | _ => true

/-- operations that neither rewind a subscription nor delete delivery rows -/
def Op.delsMonotone : Op → Bool
  | .seekTime .. => false
  | .seekSnap .. => false
  | .pruneCompletedDeliveries .. => false
  | .pruneExpiredDeliveries .. => false
  | .pruneDeletedSubDeliveries .. => false
  | _ => true

end Mmmbbb
