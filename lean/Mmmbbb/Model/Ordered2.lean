/-
Ordered delivery as a refinement obligation, second version: *no clock assumption*.

`Ord.stepOk true` (Model/Ordered.lean) asks that a keyed row of an ordered subscription is stamped
strictly later than every same-key row the subscription already has.  Rows made in one transaction
share their publish time (several deliveries dead-lettered by one sweep, one pull or one nack), so
that obligation fails exactly where the predecessor query needs its second sort key.  The obligation
below drops the assumption: rows are ordered by *when they were made* (their position in the table;
publish times only have to be non-decreasing along it), a new row's link has to satisfy the
predecessor query *with* its second sort key (`ORDER BY published_at DESC, <somebody waits on it>`),
and a shrinking step that removes a keyed row of a live ordered subscription has to remove the
earlier rows of its key that share its publish time as well (the prune jobs select by completion /
expiry time, and those rows completed / expired no later).

`Proofs/Ordered2.lean` proves that every sequence of states related by `stepOk2` keeps ordered
delivery; the driver evaluates `stepOk2` on every step of every replayed history.

Core Lean only: this file is linked into the `driver` executable.
-/
import Mmmbbb.Model.Ordered
namespace Mmmbbb.Ord2
open Mmmbbb.Ord

/-- is somebody waiting on `d` (some row of `T` names it as its predecessor) -/
def hasSuccIn (T : List Delivery) (d : Delivery) : Bool := T.any fun e => e.notBefore == some d.id

/-- does a row with id `i` come before (the first) row with id `j` in `l` -/
def befB (l : List Delivery) (i j : Id) : Bool :=
  match l.dropWhile (fun d => d.id != i) with
  | [] => false
  | _ :: rest => rest.any fun d => d.id == j

/-- a row appended to the table `T` -/
def rowNewOk2 (db' : Db) (now' : Time) (T : List Delivery) (r : Delivery) : Bool :=
  (T.all fun e => decide (e.publishedAt ≤ r.publishedAt)) && decide (r.publishedAt ≤ now') &&
  (db'.subs.all fun s => !(s.live && s.id == r.subId) || r.expiresAt == r.publishedAt + s.messageTtl) &&
  r.completedAt.isNone && r.attempts == 0 &&
  (T.all fun e => e.id != r.id) &&
  (if liveOrd db' r.subId && (keyOf db' r).isSome then
    (match r.notBefore with
     | none => (cands db' T r).isEmpty
     | some p => (cands db' T r).any fun q => q.id == p && (cands db' T r).all fun e =>
         decide (e.publishedAt ≤ q.publishedAt) &&
           (!(e.publishedAt == q.publishedAt) || !hasSuccIn T q || hasSuccIn T e))
   else r.notBefore.isNone)

def appendOk2 (db' : Db) (now' : Time) : List Delivery → List Delivery → Bool
  | _, [] => true
  | T, r :: rest => rowNewOk2 db' now' T r && appendOk2 db' now' (T ++ [r]) rest

def growOk2 (db : Db) (now : Time) (db' : Db) (now' : Time) : Bool :=
  let n := db.dels.length
  rowsUpdOk db now db' db.dels (db'.dels.take n) && appendOk2 db' now' (db'.dels.take n) (db'.dels.drop n)

/-- a removed keyed row of a live ordered subscription takes the earlier same-key rows that share its
    publish time with it -/
def tieClosed (db : Db) (R : List Id) : Bool :=
  db.dels.all fun g => !R.contains g.id || !(liveOrd db g.subId) || (keyOf db g).isNone ||
    db.dels.all fun e => !(e.subId == g.subId && keyOf db e == keyOf db g && e.publishedAt == g.publishedAt &&
      befB db.dels e.id g.id) || R.contains e.id

def shrinkOk2 (db : Db) (now : Time) (db' : Db) : Bool :=
  shrinkOk db now db' && tieClosed db (removedIds db.dels db'.dels)

/-- one step of the store, as far as ordered delivery is concerned (no clock assumption) -/
def stepOk2 (db : Db) (now : Time) (db' : Db) (now' : Time) : Bool :=
  decide (now ≤ now') && subsOk db db' && (growOk2 db now db' now' || shrinkOk2 db now db')

end Mmmbbb.Ord2
