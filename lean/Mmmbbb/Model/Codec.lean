/-
Text codec of the line protocol between the Go harness and the Lean driver, and the canonical dump
of the five tables.  Strings are percent-encoded outside ASCII letters, digits and `_ . / -`, so encoded values never
contain the separators ` ,;:|=#`.
-/
import Mmmbbb.Model.Basic
namespace Mmmbbb.Codec

def safeChar (c : Char) : Bool :=
  c.isAlphanum || c == '_' || c == '.' || c == '/' || c == '-'

def hexDigitUp (n : Nat) : Char := if n < 10 then Char.ofNat (48 + n) else Char.ofNat (55 + n)

def encByte (b : UInt8) : List Char :=
  let c := Char.ofNat b.toNat
  if b.toNat < 128 && safeChar c then [c]
  else ['%', hexDigitUp (b.toNat / 16), hexDigitUp (b.toNat % 16)]

def enc (s : String) : String := String.ofList (s.toUTF8.toList.flatMap encByte)

def hexVal? (c : Char) : Option Nat :=
  if '0' ≤ c ∧ c ≤ '9' then some (c.toNat - 48)
  else if 'A' ≤ c ∧ c ≤ 'F' then some (c.toNat - 55)
  else if 'a' ≤ c ∧ c ≤ 'f' then some (c.toNat - 87)
  else none

def decBytes : List Char → Option (List UInt8)
  | [] => some []
  | '%' :: a :: b :: r => do
    let x ← hexVal? a
    let y ← hexVal? b
    let rest ← decBytes r
    pure (UInt8.ofNat (x * 16 + y) :: rest)
  | '%' :: _ => none
  | c :: r => do
    let rest ← decBytes r
    pure (UInt8.ofNat c.toNat :: rest)

def dec (s : String) : Option String := do
  let bs ← decBytes s.toList
  String.fromUTF8? (ByteArray.mk bs.toArray)

def splitNE (s : String) (sep : String) : List String :=
  if s.isEmpty then [] else s.splitOn sep

def optStr {α} (f : α → String) : Option α → String
  | none => "-"
  | some x => f x

def showMap (m : StrMap) : String :=
  ",".intercalate (m.map fun (k, v) => enc k ++ ":" ++ enc v)

def showIds (l : List Id) : String := ",".intercalate (l.map toString)

/-- insertion sort on a `Nat` key (tables are small) -/
def insertBy {α} (key : α → Nat) (x : α) : List α → List α
  | [] => [x]
  | y :: r => if key x ≤ key y then x :: y :: r else y :: insertBy key x r

def sortBy {α} (key : α → Nat) (l : List α) : List α := l.foldr (insertBy key) []

def showTopic (t : Topic) : String :=
  s!"id={t.id},name={enc t.name},created={t.createdAt},deleted={optStr toString t.deletedAt},live={t.deletedAt.isNone},labels={showMap t.labels}"

def showSub (s : Sub) : String :=
  s!"id={s.id},topic={s.topicId},name={enc s.name},created={s.createdAt},expires={s.expiresAt},deleted={optStr toString s.deletedAt},live={s.deletedAt.isNone},ttl={s.ttl},mttl={s.messageTtl},ordered={s.ordered},labels={showMap s.labels},minb={optStr toString s.minBackoff},maxb={optStr toString s.maxBackoff},push={optStr enc s.pushEndpoint},filter={optStr enc s.filter},maxatt={optStr toString s.maxAttempts},dlt={optStr toString s.dlTopicId},delay={s.deliveryDelay}"

def showMsg (m : Msg) : String :=
  s!"id={m.id},topic={m.topicId},payload={enc m.payload},plen={m.plen},attrs={showMap m.attrs},pub={m.publishedAt},key={optStr enc m.orderKey}"

def showDel (d : Delivery) : String :=
  s!"id={d.id},msg={d.msgId},sub={d.subId},pub={d.publishedAt},at={d.attemptAt},last={optStr toString d.lastAttemptedAt},attempts={d.attempts},completed={optStr toString d.completedAt},expires={d.expiresAt},nb={optStr toString d.notBefore}"

def showSnap (s : Snapshot) : String :=
  s!"id={s.id},topic={s.topicId},name={enc s.name},created={s.createdAt},expires={s.expiresAt},labels={showMap s.labels},before={s.ackedBefore},acked={showIds (sortBy id s.ackedIds)}"

def dump (db : Db) : String :=
  "T:" ++ ";".intercalate ((sortBy (·.id) db.topics).map showTopic) ++
  "|S:" ++ ";".intercalate ((sortBy (·.id) db.subs).map showSub) ++
  "|M:" ++ ";".intercalate ((sortBy (·.id) db.msgs).map showMsg) ++
  "|D:" ++ ";".intercalate ((sortBy (·.id) db.dels).map showDel) ++
  "|N:" ++ ";".intercalate ((sortBy (·.id) db.snaps).map showSnap)

end Mmmbbb.Codec
