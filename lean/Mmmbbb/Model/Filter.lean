/-
Filter AST (`filter/grammar.go`) and evaluator (`filter/evaluate.go`).

The Go structs allow "unpopulated" nodes (nil pointers, empty AND/OR lists) for which `Evaluate`
returns an error; the parser never produces them.  The AST below makes them unrepresentable:
`Terms` is a non-empty list, a `Term` is a basic expression or a parenthesised condition.
-/
namespace Mmmbbb.Filter

abbrev Attrs := List (String × String)

/-- `attrs[k]` of a Go map given as an association list with unique keys -/
def Attrs.get? (a : Attrs) (k : String) : Option String := (a.find? (·.1 == k)).map (·.2)

inductive Op | eq | ne deriving DecidableEq, Repr, Inhabited

inductive Basic
  | has (name : String)
  | value (name : String) (op : Op) (v : String)
  | hasPrefix (name : String) (v : String)
deriving DecidableEq, Repr, Inhabited

mutual
  /-- `Condition = Term ( ("AND" Term)+ | ("OR" Term)+ )?` -/
  inductive Cond
    | mk (t : Term) (tail : Tail)
  inductive Tail
    | none
    | ands (ts : Terms)
    | ors (ts : Terms)
  /-- non-empty list of terms -/
  inductive Terms
    | one (t : Term)
    | cons (t : Term) (ts : Terms)
  /-- `Term = ("NOT"|"-")? ( Basic | "(" Condition ")" )` -/
  inductive Term
    | basic (neg : Bool) (b : Basic)
    | sub (neg : Bool) (c : Cond)
end

instance : Inhabited Term := ⟨.basic false default⟩
instance : Inhabited Cond := ⟨.mk default .none⟩

/-- `strings.HasPrefix(x, p)` -/
def hasPrefixStr (x p : String) : Bool := p.toList.isPrefixOf x.toList

def Basic.eval (a : Attrs) : Basic → Bool
  | .has n => (Attrs.get? a n).isSome
  | .value n .eq v => match Attrs.get? a n with | some x => x == v | none => false
  | .value n .ne v => match Attrs.get? a n with | some x => x != v | none => false
  | .hasPrefix n v => match Attrs.get? a n with | some x => hasPrefixStr x v | none => false

mutual
  /-- `Condition.Evaluate`: first term, then short-circuit AND / OR over the rest -/
  def Cond.eval (a : Attrs) : Cond → Bool
    | .mk t tail =>
      match tail with
      | .none => t.eval a
      | .ands ts => if t.eval a then ts.all a else false
      | .ors ts => if t.eval a then true else ts.any a
  /-- `andTerms` -/
  def Terms.all (a : Attrs) : Terms → Bool
    | .one t => t.eval a
    | .cons t ts => if t.eval a then ts.all a else false
  /-- `orTerms` -/
  def Terms.any (a : Attrs) : Terms → Bool
    | .one t => t.eval a
    | .cons t ts => if t.eval a then true else ts.any a
  /-- `Term.Evaluate`: `result != e.Not` -/
  def Term.eval (a : Attrs) : Term → Bool
    | .basic neg b => (b.eval a) != neg
    | .sub neg c => (c.eval a) != neg
end

end Mmmbbb.Filter
