/-
The actions of `/repo/actions`, one SQL statement at a time, in the order the Go code issues them
and with the predicates the Go code puts into each `Where`.

A transaction is a function `… → Except Err TxOut`: on `.error` nothing is committed.

SQL nondeterminism (`LIMIT n` without a total order, ties under `ORDER BY`, id generation) is not
resolved here: each operation carries the implementation's choice as an *observation*, the model
checks that the observation is *allowed* and applies it.  An observation that is not allowed ends
the action with `Err.badObs` — a correspondence failure, not a behaviour.
-/
import Mmmbbb.Model.Basic
import Mmmbbb.Extracted
import Mmmbbb.Model.FilterSyntax
import Mmmbbb.Model.Backoff
namespace Mmmbbb

/-- outcome of a committed transaction -/
structure TxOut (α : Type) where
  db    : Db
  /-- subscriptions whose publish-waiters are woken by the commit hooks -/
  wakes : List Id
  val   : α
deriving Repr


def badObs {α} (why : String) : Except Err α := .error (.badObs why)

def dedup : List Id → List Id
  | [] => []
  | x :: r => if r.contains x then dedup r else x :: dedup r

theorem mem_dedup {x : Id} : ∀ {l : List Id}, x ∈ l → x ∈ dedup l
  | [], h => by cases h
  | y :: r, h => by
    unfold dedup
    rcases List.mem_cons.mp h with rfl | h
    · split
      · rename_i hc; exact mem_dedup (List.contains_iff_mem.mp hc)
      · exact List.mem_cons_self
    · split
      · exact mem_dedup h
      · exact List.mem_cons_of_mem _ (mem_dedup h)

/-- look every id up; `none` if one is unknown -/
def lookupAll {α} (f : Id → Option α) : List Id → Option (List α)
  | [] => some []
  | i :: r =>
    match f i, lookupAll f r with
    | some a, some rest => some (a :: rest)
    | _, _ => none

def nodupIds : List Id → Bool
  | [] => true
  | x :: r => !r.contains x && nodupIds r

/-! ### enqueueing (`deliverToSubscription`) -/

/-- does subscription `s` take a message with these attributes?  A stored filter that does not
    parse or evaluate drops the message (the Go code logs and skips). -/
def subAccepts (s : Sub) (attrs : StrMap) : Bool :=
  match s.filter with
  | none => true
  | some f =>
    if f == "" then true
    else match Filter.parse f with
      | .ok c => c.eval attrs
      | _ => false

/-- rows the predecessor query of `deliverToSubscription` ranges over: deliveries of `s`, not
    expired, whose message carries the same order key -/
def predCands (db : Db) (s : Sub) (m : Msg) (now : Time) : List Delivery :=
  db.dels.filter fun d =>
    d.subId == s.id && decide (now < d.expiresAt) &&
      match db.msgById d.msgId with
      | some dm => dm.orderKey == m.orderKey
      | none => false

/-- is some row waiting on `d` (its `not_before_id` names `d`)? -/
def hasSucc (db : Db) (d : Delivery) : Bool := db.dels.any fun e => e.notBefore == some d.id

/-- the predecessor query has a second sort key (regenerated from the source): among rows with the
    same publish time, rows nobody waits on come first.  Rows made in one transaction share their
    publish time (several deliveries dead-lettered by one sweep, pull or nack): the newest of those is
    the one at the end of the chain. -/
def tieBreak : Bool := Extracted.predecessorOrder == ["Desc:PublishedAt", "Asc:HasSuccessor"]

def newestIn (db : Db) (cs : List Delivery) (d : Delivery) : Bool :=
  cs.all fun e => decide (e.publishedAt ≤ d.publishedAt) &&
    (!tieBreak || !(e.publishedAt == d.publishedAt) || !hasSucc db d || hasSucc db e)

/-- `ORDER BY published_at DESC, <somebody waits on it> LIMIT 1`: is `nb` an allowed answer? -/
def predChoiceOk (db : Db) (s : Sub) (m : Msg) (now : Time) (nb : Option Id) : Bool :=
  if s.ordered && (match m.orderKey with | some k => k != "" | none => false) then
    let cs := predCands db s m now
    match nb with
    | none => cs.isEmpty
    | some p => cs.any fun d => d.id == p && newestIn db cs d
  else nb.isNone

/-- one delivery row created by `deliverToSubscription`, as observed -/
structure Fwd where
  subId : Id
  newId : Id
  nb    : Option Id
deriving Repr, DecidableEq, Inhabited

def mkDelivery (s : Sub) (m : Msg) (now : Time) (f : Fwd) : Delivery :=
  { id := f.newId, msgId := m.id, subId := s.id, publishedAt := now,
    attemptAt := now + s.deliveryDelay, lastAttemptedAt := none, attempts := 0,
    completedAt := none, expiresAt := now + s.messageTtl, notBefore := f.nb }

/-- rows to insert for message `m` on the subscriptions `subs` (those that accept it) -/
def mkRows (db : Db) (subs : List Sub) (m : Msg) (now : Time) :
    List Fwd → Except Err (List Delivery)
  | [] => .ok []
  | f :: r =>
    match subs.find? (·.id == f.subId) with
    | none => badObs "delivery created on a subscription that is not a live subscriber"
    | some s =>
      if !subAccepts s m.attrs then badObs "delivery created although the filter rejects"
      else if !predChoiceOk db s m now f.nb then badObs "predecessor choice not allowed"
      else
        match mkRows db subs m now r with
        | .error e => .error e
        | .ok rest => .ok (mkDelivery s m now f :: rest)

/-- enqueue `m` on every subscription of `subs` that accepts it (`CreateBulk`) -/
def deliverAll (db : Db) (subs : List Sub) (m : Msg) (now : Time) (fwds : List Fwd) :
    Except Err (Db × List Id) :=
  let expected := (subs.filter (subAccepts · m.attrs)).map (·.id)
  let got := fwds.map (·.subId)
  if !(nodupIds got && got.length == expected.length && got.all expected.contains) then
    badObs "set of receiving subscriptions differs"
  else if !(nodupIds (fwds.map (·.newId)) && (fwds.all fun f => !db.allIds.contains f.newId)) then
    badObs "delivery id not fresh"
  else
    match mkRows db subs m now fwds with
    | .error e => .error e
    | .ok rows => .ok ({ db with dels := db.dels ++ rows }, got)

/-! ### publish -/

structure PubMsg where
  id       : Id
  payload  : String
  plen     : Nat
  attrs    : StrMap
  orderKey : String
  fwds     : List Fwd
deriving Repr, Inhabited

/-- `PublishMessage.Execute` for an already resolved live topic -/
def publishOne (db : Db) (t : Topic) (now : Time) (pm : PubMsg) : Except Err (Db × List Id) :=
  if db.allIds.contains pm.id then badObs "message id not fresh"
  else
    let m : Msg := { id := pm.id, topicId := t.id, payload := pm.payload, plen := pm.plen,
                     attrs := pm.attrs, publishedAt := now,
                     orderKey := if pm.orderKey == "" then none else some pm.orderKey }
    let db1 := { db with msgs := db.msgs ++ [m] }
    deliverAll db1 (db1.liveSubsOf t.id) m now pm.fwds

/-- messages of one `Publish` request, all in one transaction; the harness' driver wrapper ticks
    the clock by `tick` at every message insert, so message `i` is stamped `now + i·tick` -/
def publishLoop (t : Topic) (tick : Int) : Db → Time → List Id → List PubMsg → Except Err (Db × List Id)
  | db, _, wakes, [] => .ok (db, wakes)
  | db, now, wakes, pm :: r =>
    match publishOne db t now pm with
    | .error e => .error e
    | .ok (db', w) => publishLoop t tick db' (now + tick) (wakes ++ w) r

def publish (db : Db) (now : Time) (topicName : String) (tick : Int) (msgs : List PubMsg) :
    Except Err (TxOut (List Id)) :=
  match db.liveTopicByName topicName with
  | none => .error .notFound
  | some t =>
    match publishLoop t tick db now [] msgs with
    | .error e => .error e
    | .ok (db', wakes) => .ok { db := db', wakes := dedup wakes, val := msgs.map (·.id) }

/-! ### dead-lettering (`deadLetterDelivery`) -/

/-- `UPDATE deliveries SET completed_at = now WHERE id = i` -/
def markCompleted (i : Id) (now : Time) (l : List Delivery) : List Delivery :=
  updateWhere (·.id == i) (fun x => { x with completedAt := some now }) l

/-- first half of `deadLetterDelivery`: forward to the live subscriptions of the live dead-letter
    topic (nothing to do when the topic is gone or has no subscriber) -/
def dlForward (db : Db) (d : Delivery) (dlTopicId : Id) (now : Time) (fwds : List Fwd) :
    Except Err (Db × List Id) :=
  match db.topics.find? (fun t => t.id == dlTopicId && t.live) with
  | none => if fwds.isEmpty then .ok (db, []) else badObs "forward to a deleted dead-letter topic"
  | some t =>
    if (db.liveSubsOf t.id).isEmpty then
      if fwds.isEmpty then .ok (db, []) else badObs "forward without dead-letter subscriber"
    else
      match db.msgById d.msgId with
      | none => .error .notFound
      | some m => deliverAll db (db.liveSubsOf t.id) m now fwds

def deadLetter (db : Db) (d : Delivery) (dlTopicId : Id) (now : Time) (fwds : List Fwd) :
    Except Err (Db × List Id) :=
  match dlForward db d dlTopicId now fwds with
  | .error e => .error e
  | .ok (db1, w) =>
    if (db1.delById d.id).isNone then .error .notFound
    else .ok ({ db1 with dels := markCompleted d.id now db1.dels }, w ++ [d.subId])

/-! ### pull (`GetSubscriptionMessages`) -/

structure PullObs where
  /-- candidate ids in the order the `ORDER BY attempt_at LIMIT max` query returned them -/
  cands  : List Id
  /-- for every delivered id the delay (nominal + jitter) the implementation chose -/
  delays : List (Id × Int)
  /-- for every dead-lettered id the rows its forward created -/
  fwds   : List (Id × List Fwd)
deriving Repr, Inhabited

structure PullRes where
  /-- delivered (id, attempt number) in response order -/
  delivered : List (Id × Nat)
  numDL     : Nat
deriving Repr, DecidableEq, Inhabited

def sortedByAttemptAt : List Delivery → Bool
  | [] => true
  | [_] => true
  | a :: b :: r => decide (a.attemptAt ≤ b.attemptAt) && sortedByAttemptAt (b :: r)

/-- is `cands` (the rows the observed ids name) an allowed answer of
    `… WHERE eligible ORDER BY attempt_at LIMIT max`?  `elig` is the list of all eligible rows. -/
def candsOk (isElig : Delivery → Bool) (elig cands : List Delivery) (max : Nat) : Bool :=
  cands.length == min max elig.length &&
  nodupIds (cands.map (·.id)) &&
  cands.all isElig &&
  sortedByAttemptAt cands &&
  elig.all (fun e => cands.any (·.id == e.id) || cands.all (fun c => decide (c.attemptAt ≤ e.attemptAt)))

structure PullAcc where
  db        : Db
  bytes     : Nat
  delivered : List (Delivery × Int)
  numDL     : Nat
  wakes     : List Id

/-- the dead-letter topic a delivery has to be moved to when its attempts are used up
    (`HasFullDeadLetterConfig && attempts >= max_delivery_attempts`) -/
def Sub.dlTarget (s : Sub) (d : Delivery) : Option Id :=
  match s.maxAttempts, s.dlTopicId with
  | some n, some dlt => if 0 < n ∧ n ≤ (d.attempts : Int) then some dlt else none
  | _, _ => none

def fwdsFor (fwds : List (Id × List Fwd)) (i : Id) : List Fwd :=
  match fwds.find? (·.1 == i) with
  | some (_, l) => l
  | none => []

/-- the retry delay the implementation chose for delivery `i`, checked against the back-off
    window for `n` attempts -/
def obsDelay (delays : List (Id × Int)) (i : Id) (s : Sub) (n : Nat) : Except Err Int :=
  match delays.find? (·.1 == i) with
  | none => badObs "no delay observed for a delivery"
  | some (_, δ) =>
    if Backoff.delayOk (Backoff.nominal s.minBackoff s.maxBackoff n) δ then .ok δ
    else badObs "retry delay outside the allowed window"

/-- the loop of `applyResults` over the candidates -/
def pullLoop (s : Sub) (now : Time) (maxBytes : Nat) (strict : Bool) (obs : PullObs) :
    Nat → List Delivery → PullAcc → Except Err PullAcc
  | _, [], acc => .ok acc
  | i, d :: r, acc =>
    match acc.db.msgById d.msgId with
    | none => .error .notFound
    | some m =>
      if (strict || decide (0 < i)) && decide (maxBytes < acc.bytes + m.plen) then
        pullLoop s now maxBytes strict obs (i+1) r acc
      else
        match s.dlTarget d with
        | some dlt =>
          match deadLetter acc.db d dlt now (fwdsFor obs.fwds d.id) with
          | .error e => .error e
          | .ok (db', w) =>
            pullLoop s now maxBytes strict obs (i+1) r
              { acc with db := db', numDL := acc.numDL + 1, wakes := acc.wakes ++ w }
        | none =>
          match obsDelay obs.delays d.id s (d.attempts + 1) with
          | .error e => .error e
          | .ok δ =>
            pullLoop s now maxBytes strict obs (i+1) r
              { acc with bytes := acc.bytes + m.plen, delivered := acc.delivered ++ [(d, δ)] }

def refreshExpiry (db : Db) (s : Sub) (now : Time) : Db :=
  { db with subs := updateWhere (·.id == s.id) (fun x => { x with expiresAt := now + s.ttl }) db.subs }

/-- lease bookkeeping of a delivered row -/
def leaseRow (now : Time) (δ : Int) (d : Delivery) : Delivery :=
  { d with lastAttemptedAt := some now, attempts := d.attempts + 1, attemptAt := now + δ }

def applyLease (now : Time) (delivered : List (Delivery × Int)) (d : Delivery) : Delivery :=
  match delivered.find? (·.1.id == d.id) with
  | some (_, δ) => leaseRow now δ d
  | none => d

def applyLeases (now : Time) (delivered : List (Delivery × Int)) (dels : List Delivery) : List Delivery :=
  dels.map (applyLease now delivered)

/-- the delivery transaction of a pull whose candidate list is not empty -/
def pullDeliver (db0 : Db) (s : Sub) (now : Time) (maxBytes : Nat) (strict : Bool) (obs : PullObs)
    (cands : List Delivery) : Except Err (TxOut PullRes) :=
  match pullLoop s now maxBytes strict obs 0 cands
      { db := refreshExpiry db0 s now, bytes := 0, delivered := [], numDL := 0, wakes := [] } with
  | .error e => .error e
  | .ok acc =>
    .ok { db := { acc.db with dels := applyLeases now acc.delivered acc.db.dels },
          wakes := dedup acc.wakes,
          val := { delivered := acc.delivered.map (fun (d, _) => (d.id, d.attempts + 1)),
                   numDL := acc.numDL } }

/-- A pull that returns at once (`MaxWait` = `wait`): the subscription check with its expiry
    refresh, the delivery transaction, and — when nothing is deliverable — the wait of `wait` ns
    followed by the final expiry refresh.  Returns the new clock as well. -/
def pull (db : Db) (now : Time) (subName : String) (max maxBytes : Nat) (strict : Bool)
    (wait : Int) (obs : PullObs) : Except Err (TxOut PullRes × Time) :=
  match db.liveSubByName subName with
  | none => .error .notFound
  | some s =>
    let db0 := refreshExpiry db s now
    match lookupAll db0.delById obs.cands with
    | none => badObs "candidate id unknown"
    | some cands =>
      if !candsOk (db0.eligible s now) (db0.dels.filter (db0.eligible s now)) cands max then
        badObs "candidate list not an allowed query answer"
      else if cands.isEmpty then
        -- nothing deliverable: wait for the timeout, then `applyResults(nil)` refreshes the expiry
        .ok ({ db := refreshExpiry db0 s (now + wait), wakes := [],
               val := { delivered := [], numDL := 0 } }, now + wait)
      else
        match pullDeliver db0 s now maxBytes strict obs cands with
        | .error e => .error e
        | .ok o => .ok (o, now)

/-! ### ack / nack / delay -/

def ack (db : Db) (now : Time) (ids : List Id) : Except Err (TxOut Nat) :=
  let p : Delivery → Bool := fun d => ids.contains d.id && d.completedAt.isNone
  .ok { db := { db with dels := updateWhere p (fun d => { d with completedAt := some now }) db.dels },
        wakes := dedup ((db.dels.filter p).map (·.subId)),
        val := countWhere p db.dels }

def insertById (d : Delivery) : List Delivery → List Delivery
  | [] => [d]
  | e :: r => if d.id ≤ e.id then d :: e :: r else e :: insertById d r

def sortById (l : List Delivery) : List Delivery := l.foldr insertById []

structure NackAcc where
  db    : Db
  numDL : Nat
  wakes : List Id

def setAttemptAt (i : Id) (t : Time) (l : List Delivery) : List Delivery :=
  updateWhere (·.id == i) (fun x => { x with attemptAt := t }) l

def nackLoop (now : Time) (delays : List (Id × Int)) (fwds : List (Id × List Fwd)) :
    List Delivery → NackAcc → Except Err NackAcc
  | [], acc => .ok acc
  | d :: r, acc =>
    match acc.db.subById d.subId with
    | none => .error .notFound
    | some s =>
      match s.dlTarget d with
      | some dlt =>
        match deadLetter acc.db d dlt now (fwdsFor fwds d.id) with
        | .error e => .error e
        | .ok (db', w) =>
          nackLoop now delays fwds r { db := db', numDL := acc.numDL + 1, wakes := acc.wakes ++ w }
      | none =>
        match obsDelay delays d.id s d.attempts with
        | .error e => .error e
        | .ok δ =>
          nackLoop now delays fwds r
            { acc with db := { acc.db with dels := setAttemptAt d.id (now + δ) acc.db.dels } }

/-- `NackDeliveries`: result = (numNacked, numDeadLettered) -/
def nack (db : Db) (now : Time) (ids : List Id) (delays : List (Id × Int))
    (fwds : List (Id × List Fwd)) : Except Err (TxOut (Nat × Nat)) :=
  let rows := sortById (db.dels.filter fun d => ids.contains d.id && d.isOpen now)
  match nackLoop now delays fwds rows { db := db, numDL := 0, wakes := [] } with
  | .error e => .error e
  | .ok acc => .ok { db := acc.db, wakes := dedup acc.wakes, val := (rows.length, acc.numDL) }

/-- `DelayDeliveries` (ModifyAckDeadline): positive delays only postpone, a non-positive delay
    makes the rows due at `now + Δ` and wakes their subscriptions -/
def delay (db : Db) (now : Time) (ids : List Id) (Δ : Int) : Except Err (TxOut Nat) :=
  let base : Delivery → Bool := fun d => ids.contains d.id && d.completedAt.isNone
  let target := now + Δ
  if Δ ≤ 0 then
    .ok { db := { db with dels := updateWhere base (fun d => { d with attemptAt := target }) db.dels },
          wakes := dedup ((db.dels.filter base).map (·.subId)),
          val := countWhere base db.dels }
  else
    let p : Delivery → Bool := fun d => base d && decide (d.attemptAt < target)
    .ok { db := { db with dels := updateWhere p (fun d => { d with attemptAt := target }) db.dels },
          wakes := [],
          val := countWhere p db.dels }

/-! ### dead-letter sweep (`DeadLetterDeliveries`) -/

def sweepCand (db : Db) (now : Time) (d : Delivery) : Bool :=
  d.isOpen now && decide (d.attemptAt ≤ now) &&
    match db.subById d.subId with
    | none => false
    | some s =>
      s.live &&
        match s.maxAttempts, s.dlTopicId with
        | some n, some _ => decide (0 < n) && decide (n ≤ (d.attempts : Int))
        | _, _ => false

/-- is `victims` an allowed answer of `SELECT id … WHERE p LIMIT max`?  Every victim must name
    (by primary-key lookup) a row satisfying `p`; `rows` is the whole table (for the count). -/
def limitOk {α} (rows : List α) (lookup : Id → Option α) (p : α → Bool) (victims : List Id) (max : Nat) : Bool :=
  nodupIds victims && victims.length == min max (rows.filter p).length &&
    victims.all (fun v => match lookup v with | some r => p r | none => false)

def sweepLoop (now : Time) (fwds : List (Id × List Fwd)) :
    List Delivery → Db → List Id → Except Err (Db × List Id)
  | [], db, wakes => .ok (db, wakes)
  | d :: r, db, wakes =>
    match (db.subById d.subId).bind (·.dlTopicId) with
    | none => .error .notFound
    | some dlt =>
      match deadLetter db d dlt now (fwdsFor fwds d.id) with
      | .error e => .error e
      | .ok (db', w) => sweepLoop now fwds r db' (wakes ++ w)

def dlSweep (db : Db) (now : Time) (max : Nat) (victims : List Id) (fwds : List (Id × List Fwd)) :
    Except Err (TxOut Nat) :=
  if !limitOk db.dels db.delById (sweepCand db now) victims max then badObs "sweep victims not allowed"
  else
    match lookupAll db.delById victims with
    | none => badObs "sweep victim unknown"
    | some rows =>
      match sweepLoop now fwds rows db [] with
      | .error e => .error e
      | .ok (db', wakes) => .ok { db := db', wakes := dedup wakes, val := rows.length }

/-! ### seek, snapshots -/

/-- `SeekSubscriptionToTime`: result = (numAcked, numDeAcked) -/
def seekTime (db : Db) (now : Time) (subName : String) (T : Time) : Except Err (TxOut (Nat × Nat)) :=
  match db.liveSubByName subName with
  | none => .error .notFound
  | some s =>
    let pAck : Delivery → Bool := fun d =>
      d.subId == s.id && decide (now ≤ d.expiresAt) && decide (d.publishedAt ≤ T) && d.completedAt.isNone
    let dels1 := updateWhere pAck (fun d => { d with completedAt := some now }) db.dels
    let pDe : Delivery → Bool := fun d =>
      d.subId == s.id && decide (now ≤ d.expiresAt) && decide (T < d.publishedAt) && d.completedAt.isSome
    let dels2 := updateWhere pDe
      (fun d => { d with completedAt := none, expiresAt := now + s.messageTtl, attemptAt := now }) dels1
    let na := countWhere pAck db.dels
    let nd := countWhere pDe dels1
    .ok { db := { db with dels := dels2 }, wakes := if na != 0 || nd != 0 then [s.id] else [],
          val := (na, nd) }

def seekSnap (db : Db) (now : Time) (subName snapName : String) : Except Err (TxOut (Nat × Nat)) :=
  match db.liveSubByName subName with
  | none => .error .notFound
  | some s =>
    match db.snapByName snapName with
    | none => .error .notFound
    | some sn =>
      let p1 : Delivery → Bool := fun d =>
        d.subId == s.id && decide (now ≤ d.expiresAt) && decide (d.publishedAt < sn.ackedBefore) &&
          d.completedAt.isNone
      let dels1 := updateWhere p1 (fun d => { d with completedAt := some now }) db.dels
      let p2 : Delivery → Bool := fun d =>
        d.subId == s.id && decide (now ≤ d.expiresAt) && sn.ackedIds.contains d.msgId &&
          d.completedAt.isNone
      let dels2 := if sn.ackedIds.isEmpty then dels1
                   else updateWhere p2 (fun d => { d with completedAt := some now }) dels1
      let n2 := if sn.ackedIds.isEmpty then 0 else countWhere p2 dels1
      let p3 : Delivery → Bool := fun d =>
        d.subId == s.id && decide (sn.ackedBefore ≤ d.publishedAt) && !sn.ackedIds.contains d.msgId &&
          d.completedAt.isSome
      let dels3 := updateWhere p3
        (fun d => { d with completedAt := none, expiresAt := now + s.messageTtl, attemptAt := now }) dels2
      let na := countWhere p1 db.dels + n2
      let nd := countWhere p3 dels2
      .ok { db := { db with dels := dels3 }, wakes := if na != 0 || nd != 0 then [s.id] else [],
            val := (na, nd) }

/-- minimum `published_at` of a non-empty list -/
def minPub : List Delivery → Option Time
  | [] => none
  | d :: r => match minPub r with
    | none => some d.publishedAt
    | some t => some (if d.publishedAt ≤ t then d.publishedAt else t)

def createSnapshot (db : Db) (now : Time) (name subName : String) (labels : StrMap) (newId : Id) :
    Except Err (TxOut Id) :=
  if (db.snapByName name).isSome then .error .exists
  else match db.liveSubByName subName with
  | none => .error .notFound
  | some s =>
    if db.allIds.contains newId then badObs "snapshot id not fresh"
    else
      let opens := db.dels.filter fun d => d.subId == s.id && d.isOpen now
      let (before, ids) : Time × List Id :=
        match minPub opens with
        | none => (now, [])
        | some t0 =>
          -- message ids of the completed deliveries of this subscription at or after t0
          (t0, (db.dels.filter fun d =>
              d.subId == s.id && decide (t0 ≤ d.publishedAt) && d.completedAt.isSome).map (·.msgId))
      let sn : Snapshot := { id := newId, topicId := s.topicId, name := name, createdAt := now,
                             expiresAt := now + Extracted.defaultSnapshotTTL, labels := labels,
                             ackedBefore := before, ackedIds := ids }
      .ok { db := { db with snaps := db.snaps ++ [sn] }, wakes := [], val := newId }

def deleteSnapshot (db : Db) (name : String) : Except Err (TxOut Unit) :=
  if (db.snapByName name).isNone then .error .notFound
  else .ok { db := { db with snaps := db.snaps.filter (·.name != name) }, wakes := [], val := () }

/-! ### topics and subscriptions -/

def createTopic (db : Db) (now : Time) (name : String) (labels : StrMap) (newId : Id) : Except Err (TxOut Id) :=
  if (db.liveTopicByName name).isSome then .error .exists
  else if db.allIds.contains newId then badObs "topic id not fresh"
  else
    .ok { db := { db with topics := db.topics ++
            [{ id := newId, name := name, createdAt := now, deletedAt := none, labels := labels }] },
          wakes := [], val := newId }

def deleteTopic (db : Db) (now : Time) (name : String) : Except Err (TxOut Nat) :=
  let p : Topic → Bool := fun t => t.name == name && t.live
  let ids := (db.topics.filter p).map (·.id)
  if ids.isEmpty then .error .notFound
  else
    .ok { db := { db with topics := updateWhere p (fun t => { t with deletedAt := some now }) db.topics,
                          snaps := db.snaps.filter fun sn => !ids.contains sn.topicId },
          wakes := [], val := ids.length }

structure CreateSubParams where
  name        : String
  topicName   : String
  ttl         : Int
  messageTtl  : Int
  ordered     : Bool
  labels      : StrMap
  pushEndpoint : String
  minBackoff  : Int
  maxBackoff  : Int
  filter      : String
  maxAttempts : Int
  dlTopic     : String
deriving Repr, Inhabited

/-- a filter string `CreateSubscription` / `UpdateSubscription` accept: empty, or parsing -/
def filterOk (f : String) : Bool :=
  f == "" || (match Filter.parse f with | .ok _ => true | _ => false)

/-- the dead-letter topic named in the request, if any, must be live -/
def resolveDl (db : Db) (name : String) : Except Err (Option Id) :=
  if name == "" then .ok none
  else match db.liveTopicByName name with
    | none => .error .notFound
    | some dt => .ok (some dt.id)

/-- the row `CreateSubscription` inserts -/
def mkSub (now : Time) (p : CreateSubParams) (newId : Id) (topicId : Id) (dlId : Option Id) : Sub :=
  { id := newId, topicId := topicId, name := p.name, createdAt := now, expiresAt := now + p.ttl,
    deletedAt := none, ttl := p.ttl, messageTtl := p.messageTtl, ordered := p.ordered,
    labels := p.labels,
    minBackoff := if 0 < p.minBackoff then some p.minBackoff else none,
    maxBackoff := if 0 < p.maxBackoff then some p.maxBackoff else none,
    pushEndpoint := if p.pushEndpoint == "" then none else some p.pushEndpoint,
    filter := if p.filter == "" then none else some p.filter,
    maxAttempts := if p.maxAttempts != 0 then some p.maxAttempts else none,
    dlTopicId := dlId, deliveryDelay := 0 }

/-- `CreateSubscription.Execute` (constructor preconditions are the API layer's business) -/
def createSub (db : Db) (now : Time) (p : CreateSubParams) (newId : Id) : Except Err (TxOut Id) :=
  if (db.liveSubByName p.name).isSome then .error .exists
  else match db.liveTopicByName p.topicName with
  | none => .error .notFound
  | some t =>
    if !filterOk p.filter then .error (.invalid "filter")
    else match resolveDl db p.dlTopic with
      | .error e => .error e
      | .ok dlId =>
        if db.allIds.contains newId then badObs "subscription id not fresh"
        else
          .ok { db := { db with subs := db.subs ++ [mkSub now p newId t.id dlId] },
                wakes := [newId], val := newId }

/-- what a successful `createSub` did -/
theorem createSub_ok {db : Db} {now : Time} {p : CreateSubParams} {newId : Id} {o : TxOut Id}
    (h : createSub db now p newId = .ok o) :
    ∃ t dlId, db.liveTopicByName p.topicName = some t ∧ filterOk p.filter = true ∧
      (db.liveSubByName p.name).isSome = false ∧ db.allIds.contains newId = false ∧
      o.db = { db with subs := db.subs ++ [mkSub now p newId t.id dlId] } ∧ o.wakes = [newId] := by
  unfold createSub at h
  split at h
  · cases h
  · rename_i hex
    split at h
    · cases h
    · rename_i t ht
      split at h
      · cases h
      · rename_i hf
        split at h
        · cases h
        · rename_i dlId _
          split at h
          · cases h
          · rename_i hfresh
            injection h with h
            subst h
            exact ⟨t, dlId, ht, by simpa using hf, by simpa using hex, by simpa using hfresh, rfl, rfl⟩

def deleteSub (db : Db) (now : Time) (name : String) : Except Err (TxOut Nat) :=
  let p : Sub → Bool := fun s => s.name == name && s.live
  let ids := (db.subs.filter p).map (·.id)
  if ids.isEmpty then .error .notFound
  else
    .ok { db := { db with subs := updateWhere p (fun s => { s with deletedAt := some now }) db.subs },
          wakes := ids, val := ids.length }

/-- `controllers/delay-injector.go` `PutDelay` / `DeleteDelay`: set the delivery delay of a live
    subscription -/
def setDelay (db : Db) (name : String) (d : Int) : Except Err (TxOut Unit) :=
  let p : Sub → Bool := fun s => s.name == name && s.live
  if !db.subs.any p then .error .notFound
  else
    let subs' := updateWhere p (fun s => { s with deliveryDelay := d }) db.subs
    .ok { db := { db with subs := subs' }, wakes := [], val := () }

/-! ### background jobs -/

/-- `DeleteExpiredSubscriptions` -/
def expireSubs (db : Db) (now : Time) (max : Nat) (victims : List Id) : Except Err (TxOut Nat) :=
  let cand : Sub → Bool := fun s => decide (s.expiresAt < now) && s.live
  if !limitOk db.subs db.subById cand victims max then badObs "expiry victims not allowed"
  else
    let subs' := updateWhere (fun s => victims.contains s.id) (fun s => { s with deletedAt := some now }) db.subs
    .ok { db := { db with subs := subs' }, wakes := victims, val := victims.length }

/-- `DELETE FROM deliveries WHERE id IN ids`: successors' `not_before_id` is `SET NULL` -/
def deleteDeliveries (db : Db) (ids : List Id) : Db :=
  { db with dels := (db.dels.filter fun d => !ids.contains d.id).map fun d =>
      match d.notBefore with
      | some p => if ids.contains p then { d with notBefore := none } else d
      | none => d }

def pruneCompletedDeliveries (db : Db) (now : Time) (minAge : Int) (max : Nat) (victims : List Id) :
    Except Err (TxOut Nat) :=
  let cand : Delivery → Bool := fun d =>
    match d.completedAt with | some c => decide (c ≤ now - minAge) | none => false
  if !limitOk db.dels db.delById cand victims max then badObs "prune victims not allowed"
  else .ok { db := deleteDeliveries db victims, wakes := [], val := victims.length }

def pruneExpiredDeliveries (db : Db) (now : Time) (max : Nat) (victims : List Id) : Except Err (TxOut Nat) :=
  let cand : Delivery → Bool := fun d => decide (d.expiresAt < now)
  if !limitOk db.dels db.delById cand victims max then badObs "prune victims not allowed"
  else
    let ordered := (db.subs.filter fun s =>
      s.ordered && db.dels.any fun d => d.subId == s.id && victims.contains d.id).map (·.id)
    .ok { db := deleteDeliveries db victims, wakes := ordered, val := victims.length }

def pruneCompletedMessages (db : Db) (now : Time) (minAge : Int) (max : Nat) (victims : List Id) :
    Except Err (TxOut Nat) :=
  let cand : Msg → Bool := fun m =>
    decide (m.publishedAt ≤ now - minAge) && !db.dels.any (·.msgId == m.id)
  if !limitOk db.msgs db.msgById cand victims max then badObs "prune victims not allowed"
  else .ok { db := { db with msgs := db.msgs.filter fun m => !victims.contains m.id },
             wakes := [], val := victims.length }

def pruneDeletedSubDeliveries (db : Db) (now : Time) (minAge : Int) (max : Nat) (victims : List Id) :
    Except Err (TxOut Nat) :=
  let cand : Delivery → Bool := fun d =>
    match (db.subById d.subId).bind (·.deletedAt) with
    | some t => decide (t ≤ now - minAge)
    | none => false
  if !limitOk db.dels db.delById cand victims max then badObs "prune victims not allowed"
  else .ok { db := deleteDeliveries db victims, wakes := [], val := victims.length }

def pruneDeletedSubs (db : Db) (now : Time) (minAge : Int) (max : Nat) (victims : List Id) : Except Err (TxOut Nat) :=
  let cand : Sub → Bool := fun s =>
    (match s.deletedAt with | some t => decide (t ≤ now - minAge) | none => false) &&
      !db.dels.any (·.subId == s.id)
  if !limitOk db.subs db.subById cand victims max then badObs "prune victims not allowed"
  else .ok { db := { db with subs := db.subs.filter fun s => !victims.contains s.id },
             wakes := [], val := victims.length }

/-- `PruneDeletedTopics`: the `DELETE` fails as a whole when a message or snapshot still references
    a victim (`NO ACTION`); a topic that is still some subscription's dead-letter topic is not a
    candidate (`dead_letter_topic_id` is `ON DELETE SET NULL`: deleting it would take the policy away) -/
def pruneDeletedTopics (db : Db) (now : Time) (minAge : Int) (max : Nat) (victims : List Id) : Except Err (TxOut Nat) :=
  let cand : Topic → Bool := fun t =>
    (match t.deletedAt with | some d => decide (d ≤ now - minAge) | none => false) &&
      !db.subs.any (·.topicId == t.id) && !db.subs.any (·.dlTopicId == some t.id)
  if !limitOk db.topics db.topicById cand victims max then badObs "prune victims not allowed"
  else if db.msgs.any (fun m => victims.contains m.topicId) ||
          db.snaps.any (fun sn => victims.contains sn.topicId) then .error .fk
  else
    let subs' := db.subs.map fun s =>
      match s.dlTopicId with
      | some d => if victims.contains d then { s with dlTopicId := none } else s
      | none => s
    let topics' := db.topics.filter fun t => !victims.contains t.id
    .ok { db := { db with topics := topics', subs := subs' }, wakes := [], val := victims.length }

end Mmmbbb
