/-
Fault injection set (`faults/set.go`, `faults/description.go`) with interleaving semantics.

A `Check` call is not atomic: it *matches* (reads the counters under the read lock), then performs
an atomic `AddInt64(&d.Count, -1)` on the description it matched, and when the result is negative
it starts over.  `Sys` below lets any number of callers interleave at exactly these two steps.
-/
namespace Mmmbbb.Faults

abbrev Params := List (String × String)

def Params.get? (p : Params) (k : String) : Option String := (p.find? (·.1 == k)).map (·.2)

structure Desc where
  op     : String
  params : Params
  /-- the atomic counter; may go negative under races -/
  count  : Int
deriving Repr, DecidableEq, Inhabited

/-- `Description.match` apart from the counter: same operation, every injected parameter equals
    the call's parameter -/
def Desc.fits (d : Desc) (op : String) (params : Params) : Bool :=
  d.op == op && d.params.all fun (k, v) => Params.get? params k == some v

/-- `Description.match` -/
def Desc.matches (d : Desc) (op : String) (params : Params) : Bool :=
  decide (0 < d.count) && d.fits op params

/-- index of the first matching description (`Set.match`) -/
def findMatch (ds : List Desc) (op : String) (params : Params) : Option Nat :=
  ds.findIdx? fun d => d.matches op params

/-- a caller of `Check` -/
inductive Phase
  | start                 -- about to match
  | matched (i : Nat)     -- matched description i, about to decrement it
  | fired (i : Nat)       -- returned the fault of description i
  | passed                -- returned nil
deriving Repr, DecidableEq, Inhabited

structure Caller where
  op     : String
  params : Params
  phase  : Phase
deriving Repr, DecidableEq, Inhabited

structure Sys where
  descs   : List Desc
  callers : List Caller
deriving Repr, Inhabited

def decr (ds : List Desc) (i : Nat) : List Desc :=
  ds.mapIdx fun j d => if j == i then { d with count := d.count - 1 } else d

/-- one atomic step of caller `c` -/
def stepCaller (ds : List Desc) (c : Caller) : List Desc × Caller :=
  match c.phase with
  | .start =>
    match findMatch ds c.op c.params with
    | some i => (ds, { c with phase := .matched i })
    | none => (ds, { c with phase := .passed })
  | .matched i =>
    match ds[i]? with
    | none => (ds, { c with phase := .passed })
    | some d =>
      let remaining := d.count - 1
      if remaining < 0 then (decr ds i, { c with phase := .start })       -- `continue`
      else (decr ds i, { c with phase := .fired i })
  | .fired _ => (ds, c)
  | .passed => (ds, c)

/-- schedule step: caller number `k` moves -/
def Sys.step (s : Sys) (k : Nat) : Sys :=
  match s.callers[k]? with
  | none => s
  | some c =>
    let (ds', c') := stepCaller s.descs c
    { descs := ds', callers := s.callers.set k c' }

def Sys.run (s : Sys) (sched : List Nat) : Sys := sched.foldl Sys.step s

/-- sequential `Check`: run one caller to completion (fuel = counts can only make it loop once per
    exhausted description) -/
def checkSeq : Nat → List Desc → Caller → List Desc × Caller
  | 0, ds, c => (ds, c)
  | fuel+1, ds, c =>
    match c.phase with
    | .fired _ => (ds, c)
    | .passed => (ds, c)
    | _ => let (ds', c') := stepCaller ds c; checkSeq fuel ds' c'

/-- `Set.Current`: descriptions with a positive counter -/
def current (ds : List Desc) : List Desc := ds.filter fun d => decide (0 < d.count)

/-- `Set.prune` -/
def prune (ds : List Desc) : List Desc := current ds

end Mmmbbb.Faults
