/-
One-line formats for the pure cores (filter, back-off, …): the driver prints the model's answer,
the Go harness compares it with the implementation's.
-/
import Mmmbbb.Model.Codec
import Mmmbbb.Model.FilterSyntax
import Mmmbbb.Model.Backoff
import Mmmbbb.Model.Faults
import Mmmbbb.Model.Push
import Mmmbbb.Model.Notify
import Mmmbbb.Model.Stream
namespace Mmmbbb.Pure
open Mmmbbb.Codec Mmmbbb.Filter

abbrev Fields := List (String × String)
def fget (fs : Fields) (k : String) : Option String := (fs.find? (·.1 == k)).map (·.2)

def showBasic : Basic → String
  | .has n => s!"H({enc n})"
  | .value n .eq v => s!"EQ({enc n},{enc v})"
  | .value n .ne v => s!"NE({enc n},{enc v})"
  | .hasPrefix n v => s!"P({enc n},{enc v})"

mutual
  def showCond : Cond → String
    | .mk t .none => showTerm t
    | .mk t (.ands ts) => showTerm t ++ showTerms "&" ts
    | .mk t (.ors ts) => showTerm t ++ showTerms "|" ts
  def showTerms (sep : String) : Terms → String
    | .one t => sep ++ showTerm t
    | .cons t ts => sep ++ showTerm t ++ showTerms sep ts
  def showTerm : Term → String
    | .basic neg b => (if neg then "!" else "") ++ showBasic b
    | .sub neg c => (if neg then "!" else "") ++ "[" ++ showCond c ++ "]"
end

def parseMap (s : String) : Option Attrs :=
  (splitNE s ",").mapM fun w => match w.splitOn ":" with
    | [k, v] => match dec k, dec v with
      | some k', some v' => some (k', v')
      | _, _ => none
    | _ => none

def handleFilter (fs : Fields) : String :=
  match (fget fs "s").bind dec with
  | none => "ERROR bad filter line"
  | some s =>
    let attrsl : Option (List Attrs) := ((fget fs "attrsl").getD "").splitOn ";" |>.mapM parseMap
    match attrsl with
    | none => "ERROR bad attrs"
    | some al =>
      match parse s with
      | .unsupported => "R parse=unsupported"
      | .reject => "R parse=reject"
      | .ok c =>
        let r := render c
        -- the printer decides identifier-vs-quoted and printability with Go's unicode tables:
        -- outside ASCII the rendered text is not modelled
        let ascii := r.toList.all (fun ch => ch.toNat < 128)
        let re := match parse r with
          | .ok c' => if showCond c' == showCond c then "same" else "diff"
          | .reject => "reject"
          | .unsupported => "unsupported"
        let bits := String.ofList (al.map fun a => if c.eval a then '1' else '0')
        let doc := match docVerdict s with
          | .doc => "doc" | .quotedKeyword => "quoted" | .comment => "comment"
        if ascii then s!"R parse=ok ast={showCond c} eval={bits} render={enc r} reparse={re} doc={doc}"
        else s!"R parse=ok ast={showCond c} eval={bits} render=unsupported reparse=unsupported doc={doc}"

def handleBackoff (fs : Fields) : String :=
  let opt (k : String) : Option Int := match fget fs k with
    | some "-" => none
    | some v => v.toInt?
    | none => none
  match (fget fs "n").bind String.toNat? with
  | some n => s!"R nominal={Backoff.nominal (opt "minb") (opt "maxb") n}"
  | none => "ERROR bad backoff line"

/-! faults: `faults ops=<op>;<op>;…` with `add~<operation>~<params>~<count>`, `check~<operation>~<params>`,
`current`; answers `fired:<idx>` / `pass` / `cur:<op>=<count>,…` per op, separated by `;` -/

def parseParams (s : String) : Option Faults.Params := parseMap s

def handleFaults (fs : Fields) : String :=
  let ops := splitNE ((fget fs "ops").getD "") ";"
  let rec go (ops : List String) (ds : List Faults.Desc) (acc : List String) : String :=
    match ops with
    | [] => "R " ++ ";".intercalate acc.reverse
    | o :: r =>
      match o.splitOn "~" with
      | ["add", opn, ps, cnt] =>
        match dec opn, parseParams ps, cnt.toInt? with
        | some opn', some ps', some c => go r (ds ++ [{ op := opn', params := ps', count := c }]) ("ok" :: acc)
        | _, _, _ => "ERROR bad add"
      | ["check", opn, ps] =>
        match dec opn, parseParams ps with
        | some opn', some ps' =>
          let (ds', c) := Faults.checkSeq (2 * ds.length + 2) ds { op := opn', params := ps', phase := .start }
          let a := match c.phase with
            | .fired i => s!"fired:{i}"
            | .passed => "pass"
            | _ => "stuck"
          go r ds' (a :: acc)
        | _, _ => "ERROR bad check"
      | ["current"] =>
        let cur := (Faults.current ds).map fun d => s!"{enc d.op}={d.count}"
        go r ds (("cur:" ++ ",".intercalate cur) :: acc)
      | ["prune"] => go r (Faults.prune ds) ("ok" :: acc)
      | _ => "ERROR bad faults op"
  go ops [] []

/-! push: `push codes=<c>,<c>…` (-1 = transport error) → `R a,n,…`;
`window batches=f3,s2,n1…` → `R <w0>,<w1>,…` (trajectory) -/

def handlePush (fs : Fields) : String :=
  let codes := splitNE ((fget fs "codes").getD "") ","
  let outs := codes.map fun c =>
    match c.toInt? with
    | some v =>
      (match Push.classify (if v < 0 then none else some v.toNat) true with
       | .ack _ => "a" | .nack => "n")
    | none => "?"
  "R " ++ ",".intercalate outs

def handleWindow (fs : Fields) : String :=
  let bs := (splitNE ((fget fs "batches").getD "") ",").filterMap fun b =>
    match b.toList with
    | 'f' :: r => (String.ofList r).toNat?.map Push.Batch.fastAcks
    | 's' :: r => (String.ofList r).toNat?.map Push.Batch.slowAcks
    | 'n' :: r => (String.ofList r).toNat?.map Push.Batch.nacks
    | _ => none
  let traj := bs.foldl (fun (acc : List Int × Int) b => let w := Push.windowStep acc.2 b; (acc.1 ++ [w], w)) ([Push.windowInit], Push.windowInit)
  "R " ++ ",".intercalate (traj.1.map toString)

/-! notify: `notify nsubs=<n> waiters=<sub>:<max>,… writers=<sub>:<k>+…/<sub>+…;… avail=<sub>:<n>,… sched=W<i>,X<j>,…`
answers, per schedule step, `w=<pcs>;x=<pcs>;r=<registered channels per subscription>;g=<messages got>` joined by `|` -/

def natList (s : String) (sep : String) : Option (List Nat) := (splitNE s sep).mapM String.toNat?

def pairList (s : String) (sep : String) : Option (List (Nat × Nat)) :=
  (splitNE s sep).mapM fun e => match e.splitOn ":" with
    | [a, b] => match a.toNat?, b.toNat? with
      | some x, some y => some (x, y)
      | _, _ => none
    | _ => none

def parseProc (s : String) : Option Notify.Proc :=
  match s.toList with
  | 'W' :: r => (String.ofList r).toNat?.map Notify.Proc.waiter
  | 'X' :: r => (String.ofList r).toNat?.map Notify.Proc.writer
  | _ => none

def handleNotify (fs : Fields) : String :=
  let nsubs := ((fget fs "nsubs").bind String.toNat?).getD 0
  let ws := pairList ((fget fs "waiters").getD "") ","
  let xs : Option (List (List (Nat × Nat) × List Nat)) := (splitNE ((fget fs "writers").getD "") ";").mapM fun e =>
    match e.splitOn "/" with
    | [a, b] => match pairList a "+", natList b "+" with
      | some x, some y => some (x, y)
      | _, _ => none
    | _ => none
  let av := pairList ((fget fs "avail").getD "") ","
  let sched := (splitNE ((fget fs "sched").getD "") ",").mapM parseProc
  match ws, xs, av, sched with
  | some ws, some xs, some av, some sched =>
    let σ0 := Notify.init (fun i => (ws.getD i (0, 0)).1) (fun i => (ws.getD i (0, 0)).2)
      (fun j => xs.getD j ([], [])) (fun s => Notify.addsFor av s)
    let show1 (σ : Notify.Sys) : String :=
      "w=" ++ ",".intercalate ((List.range ws.length).map fun i => toString (σ.waiter i).pc) ++
      ";x=" ++ ",".intercalate ((List.range xs.length).map fun j => toString (σ.writer j).pc) ++
      ";r=" ++ ",".intercalate ((List.range nsubs).map fun s =>
        if σ.ents.contains s then toString (Notify.regCount σ s) else "-") ++
      ";g=" ++ ",".intercalate ((List.range ws.length).map fun i => toString (if (σ.waiter i).pc == 5 then (σ.waiter i).got else 0))
    let rec go (σ : Notify.Sys) (ps : List Notify.Proc) (acc : List String) : List String :=
      match ps with
      | [] => acc.reverse
      | p :: r => let σ' := Notify.step Notify.Cfg.ofSource σ p; go σ' r (show1 σ' :: acc)
    "R " ++ "|".intercalate (go σ0 sched [])
  | _, _, _, _ => "ERROR bad notify line"

/-! stream: `stream evs=<ev>;<ev>;…` with `fc~m~b`, `loop`, `wake`, `q~id:size+…`, `empty`, `s~id+…` (stream ack/nack),
`x~id+…` (outside ack), `r~id+…` (refresh); answers the ids selected by each `q`, then the final state -/

inductive StreamEv where
  | ev (e : Stream.Ev)
  /-- a fetch whose query returned `cands` and which sent `sent` (ids) -/
  | fetch (cands : List (Nat × Nat)) (sent : List Nat)

def parseStreamEv (e : String) : Option StreamEv :=
  match e.splitOn "~" with
  | ["fc", m, b] => match m.toInt?, b.toInt? with
    | some m, some b => some (.ev (.setFc m b))
    | _, _ => none
  | ["loop"] => some (.ev .loop)
  | ["wake"] => some (.ev (.wake false))
  | ["spurious"] => some (.ev (.wake true))
  | ["empty"] => some (.ev .fetchEmpty)
  | ["q", l, snt] => match pairList l "+", natList snt "+" with
    | some c, some s => some (.fetch c s)
    | _, _ => none
  | ["s", l] => (natList l "+").map fun x => .ev (.settle x)
  | ["sc", l] => (natList l "+").map fun x => .ev (.settleCommit x)
  | ["sb"] => some (.ev .settleBook)
  | ["x", l] => (natList l "+").map fun x => .ev (.extSettle x)
  | ["r", _] => some (.ev .refresh)
  | ["r"] => some (.ev .refresh)
  | _ => none

def sameSet (a b : List Nat) : Bool := a.all b.contains && b.all a.contains

/-- what the fetch in flight (or, if none, the one the sender would start now) selects -/
def selectNow (s : Stream.St) (cands : List (Nat × Nat)) : Option (Stream.St × List Nat) :=
  let s := if s.budget.isSome then s else Stream.step (Stream.step s (.wake true)) .loop
  match s.budget with
  | some (m, b, strict) => some (s, (Stream.select strict b (cands.take m) 0 0).map (·.1))
  | none => none

/-- The streamer's goroutines race: between the harness's event and the fetch that reflects it the
    sender may have made further passes (with the budget it computed before the event took effect).
    A fetch that sent nothing is therefore always accepted (whether something *should* have been sent
    is the no-stall oracle's business); a fetch that sent something must be what the model selects
    with the budget in flight or with the budget of a fresh pass. -/
def handleStream (fs : Fields) : String :=
  match (splitNE ((fget fs "evs").getD "") ";").mapM parseStreamEv with
  | none => "ERROR bad stream line"
  | some evs =>
    let rec go (s : Stream.St) (evs : List StreamEv) (acc : List String) : Stream.St × List String :=
      match evs with
      | [] => (s, acc.reverse)
      | .ev e :: r => go (Stream.step s e) r acc
      | .fetch cands sent :: r =>
        if sent.isEmpty then go (Stream.step s .fetchEmpty) r ("ok" :: acc)
        else
          match selectNow s cands with
          | some (s1, sel) =>
            if sameSet sel sent then go (Stream.step s1 (.query cands)) r ("ok" :: acc)
            else
              -- a fresh pass of the sender
              let s2 := Stream.step (Stream.step (Stream.step s .fetchEmpty) (.wake true)) .loop
              match selectNow s2 cands with
              | some (s3, sel2) =>
                if sameSet sel2 sent then go (Stream.step s3 (.query cands)) r ("ok" :: acc)
                else go (Stream.step s3 (.query cands)) r (("bad:" ++ "+".intercalate (sel.map toString) ++ "/" ++ "+".intercalate (sel2.map toString)) :: acc)
              | none => go s2 r ("bad:nofetch" :: acc)
          | none => go s r ("bad:nofetch" :: acc)
    let (s, sels) := go Stream.St.ofSource evs []
    "R " ++ ";".intercalate sels ++ "|w=" ++ (if s.waiting then "1" else "0") ++ "|f=" ++ (if s.budget.isSome then "1" else "0") ++
      "|p=" ++ "+".intercalate (s.pending.map fun x => toString x.1)

def isPureOp (op : String) : Bool :=
  op == "filter" || op == "backoff" || op == "faults" || op == "push" || op == "window" || op == "notify" || op == "stream"

def handle (op : String) (fs : Fields) : String :=
  if op == "filter" then handleFilter fs
  else if op == "backoff" then handleBackoff fs
  else if op == "faults" then handleFaults fs
  else if op == "push" then handlePush fs
  else if op == "window" then handleWindow fs
  else if op == "notify" then handleNotify fs
  else if op == "stream" then handleStream fs
  else "ERROR unknown pure op"

end Mmmbbb.Pure
