/-
Filter syntax: lexer (the part of Go's `text/scanner` that participle's default lexer uses, with
`participle.Unquote("String")`), token-level parser (recursive descent mirroring the struct tags of
`filter/grammar.go`, with participle's value-matched literals), and printer (`filter/as-filter.go`).

Scope of the character level: ASCII outside string literals.  A non-ASCII character outside a
string literal makes the lexer answer `unsupported` (Go decides with `unicode.IsLetter`), never
`reject`, so the correspondence check skips such inputs instead of guessing.
-/
import Mmmbbb.Model.Filter
namespace Mmmbbb.Filter

inductive Tok
  | ident (s : String)
  | str (s : String)
  | sym (c : Char)
deriving DecidableEq, Repr, Inhabited

/-- the token value participle matches literals against (strings already unquoted) -/
def Tok.val : Tok → String
  | .ident s => s
  | .str s => s
  | .sym c => c.toString

/-! ### lexer -/

inductive LexResult
  | ok (ts : List Tok)
  | reject
  | unsupported
deriving DecidableEq, Repr, Inhabited

def isAsciiLetter (c : Char) : Bool :=
  (decide ('a' ≤ c) && decide (c ≤ 'z')) || (decide ('A' ≤ c) && decide (c ≤ 'Z')) || c == '_'
def isAsciiDigit (c : Char) : Bool := decide ('0' ≤ c) && decide (c ≤ '9')
def isIdentRest (c : Char) : Bool := isAsciiLetter c || isAsciiDigit c

def hexVal (c : Char) : Option Nat :=
  if isAsciiDigit c then some (c.toNat - '0'.toNat)
  else if decide ('a' ≤ c) && decide (c ≤ 'f') then some (c.toNat - 'a'.toNat + 10)
  else if decide ('A' ≤ c) && decide (c ≤ 'F') then some (c.toNat - 'A'.toNat + 10)
  else none

def octVal (c : Char) : Option Nat :=
  if decide ('0' ≤ c) && decide (c ≤ '7') then some (c.toNat - '0'.toNat) else none

def hexNum : List Char → Option Nat
  | [] => some 0
  | c :: r => do
    let v ← hexVal c
    let rest ← hexNum r
    pure (v * 16 ^ r.length + rest)

/-- `utf8.ValidRune` -/
def validRune (n : Nat) : Bool := (n < 0xD800) || (0xDFFF < n && n ≤ 0x10FFFF)

def runeOf (n : Nat) : Option Char := if validRune n then some (Char.ofNat n) else none

/-- body of a double-quoted string after the opening quote: returns the unquoted value and the
    rest of the input after the closing quote; `none` = scanner or `UnquoteChar` error -/
def scanStr : List Char → List Char → Option (List Char × List Char)
  | _, [] => none
  | acc, '"' :: r => some (acc.reverse, r)
  | _, '\n' :: _ => none
  | acc, '\\' :: 'a' :: r => scanStr ('\x07' :: acc) r
  | acc, '\\' :: 'b' :: r => scanStr ('\x08' :: acc) r
  | acc, '\\' :: 'f' :: r => scanStr ('\x0c' :: acc) r
  | acc, '\\' :: 'n' :: r => scanStr ('\n' :: acc) r
  | acc, '\\' :: 'r' :: r => scanStr ('\r' :: acc) r
  | acc, '\\' :: 't' :: r => scanStr ('\t' :: acc) r
  | acc, '\\' :: 'v' :: r => scanStr ('\x0b' :: acc) r
  | acc, '\\' :: '\\' :: r => scanStr ('\\' :: acc) r
  | acc, '\\' :: '"' :: r => scanStr ('"' :: acc) r
  | acc, '\\' :: 'x' :: h1 :: h2 :: r =>
    match hexNum [h1, h2] with
    | some n => scanStr (Char.ofNat n :: acc) r
    | none => none
  | acc, '\\' :: 'u' :: h1 :: h2 :: h3 :: h4 :: r =>
    match (hexNum [h1, h2, h3, h4]).bind runeOf with
    | some c => scanStr (c :: acc) r
    | none => none
  | acc, '\\' :: 'U' :: h1 :: h2 :: h3 :: h4 :: h5 :: h6 :: h7 :: h8 :: r =>
    match (hexNum [h1, h2, h3, h4, h5, h6, h7, h8]).bind runeOf with
    | some c => scanStr (c :: acc) r
    | none => none
  | acc, '\\' :: o1 :: o2 :: o3 :: r =>
    match octVal o1, octVal o2, octVal o3 with
    | some a, some b, some c =>
      let n := a * 64 + b * 8 + c
      if n ≤ 255 then scanStr (Char.ofNat n :: acc) r else none
    | _, _, _ => none
  | _, '\\' :: _ => none
  | acc, c :: r => if c.toNat == 0 then none else scanStr (c :: acc) r

/-- skip a `/* … */` comment body; `none` = not terminated -/
def skipBlock : List Char → Option (List Char)
  | [] => none
  | '*' :: '/' :: r => some r
  | _ :: r => skipBlock r

def skipLine : List Char → List Char
  | [] => []
  | '\n' :: r => r
  | _ :: r => skipLine r

def spanIdent : List Char → List Char → List Char × List Char
  | acc, [] => (acc.reverse, [])
  | acc, c :: r => if isIdentRest c then spanIdent (c :: acc) r else (acc.reverse, c :: r)

/-- the lexer proper; `fuel` bounds the number of steps (input length + 1 suffices) -/
def lexAux : Nat → List Char → List Tok → LexResult
  | 0, _, _ => .reject
  | _, [], acc => .ok acc.reverse
  | fuel+1, c :: r, acc =>
    if c == ' ' || c == '\t' || c == '\n' || c == '\r' then lexAux fuel r acc
    else if c.toNat ≥ 128 then .unsupported
    else if c.toNat == 0 then .reject
    else if isAsciiLetter c then
      let (w, r') := spanIdent [c] r
      lexAux fuel r' (.ident (String.ofList w) :: acc)
    else if isAsciiDigit c then .reject            -- Int / Float token: no grammar position takes it
    else if c == '"' then
      match scanStr [] r with
      | some (v, r') => lexAux fuel r' (.str (String.ofList v) :: acc)
      | none => .reject
    else if c == '\'' || c == '`' then .reject      -- Char / RawString token: never accepted
    else if c == '.' then
      match r with
      | d :: _ => if isAsciiDigit d then .reject else lexAux fuel r (.sym '.' :: acc)
      | [] => lexAux fuel r (.sym '.' :: acc)
    else if c == '/' then
      match r with
      | '/' :: r' => lexAux fuel (skipLine r') acc
      | '*' :: r' =>
        match skipBlock r' with
        | some r'' => lexAux fuel r'' acc
        | none => .reject
      | _ => lexAux fuel r (.sym '/' :: acc)
    else lexAux fuel r (.sym c :: acc)

def lex (s : String) : LexResult := lexAux (s.length + 1) s.toList []

/-! ### parser (token level) -/

/-- participle literals match on the token *value* only -/
def lit (s : String) (t : Tok) : Bool := t.val == s

def parseName : List Tok → Option (String × List Tok)
  | .ident s :: r => some (s, r)
  | .str s :: r => some (s, r)
  | _ => none

def parseStr : List Tok → Option (String × List Tok)
  | .str s :: r => some (s, r)
  | _ => none

def expect (s : String) : List Tok → Option (List Tok)
  | t :: r => if lit s t then some r else none
  | [] => none

def parseHas (ts : List Tok) : Option (Basic × List Tok) := do
  let r ← expect "attributes" ts
  let r ← expect ":" r
  let (n, r) ← parseName r
  pure (.has n, r)

def parseOp (ts : List Tok) : Option (Op × List Tok) :=
  match expect "=" ts with
  | some r => some (.eq, r)
  | none => do
    let r ← expect "!" ts
    let r ← expect "=" r
    pure (.ne, r)

def parseValue (ts : List Tok) : Option (Basic × List Tok) := do
  let r ← expect "attributes" ts
  let r ← expect "." r
  let (n, r) ← parseName r
  let (op, r) ← parseOp r
  let (v, r) ← parseStr r
  pure (.value n op v, r)

def parsePrefix (ts : List Tok) : Option (Basic × List Tok) := do
  let r ← expect "hasPrefix" ts
  let r ← expect "(" r
  let r ← expect "attributes" r
  let r ← expect "." r
  let (n, r) ← parseName r
  let r ← expect "," r
  let (v, r) ← parseStr r
  let r ← expect ")" r
  pure (.hasPrefix n v, r)

def parseBasic (ts : List Tok) : Option (Basic × List Tok) :=
  (parseHas ts).orElse fun _ => (parseValue ts).orElse fun _ => parsePrefix ts

def parseNeg : List Tok → Bool × List Tok
  | t :: r => if lit "NOT" t || lit "-" t then (true, r) else (false, t :: r)
  | [] => (false, [])

mutual
  def parseCond : Nat → List Tok → Option (Cond × List Tok)
    | 0, _ => none
    | fuel+1, ts => do
      let (t, r) ← parseTerm fuel ts
      match r with
      | k :: r' =>
        if lit "AND" k then do
          let (ts', r'') ← parseMore "AND" fuel r'
          pure (.mk t (.ands ts'), r'')
        else if lit "OR" k then do
          let (ts', r'') ← parseMore "OR" fuel r'
          pure (.mk t (.ors ts'), r'')
        else pure (.mk t .none, r)
      | [] => pure (.mk t .none, r)
  /-- one Term, then as many `kw Term` as follow -/
  def parseMore (kw : String) : Nat → List Tok → Option (Terms × List Tok)
    | 0, _ => none
    | fuel+1, ts => do
      let (t, r) ← parseTerm fuel ts
      match r with
      | k :: r' =>
        if lit kw k then do
          let (more, r'') ← parseMore kw fuel r'
          pure (.cons t more, r'')
        else pure (.one t, r)
      | [] => pure (.one t, r)
  def parseTerm : Nat → List Tok → Option (Term × List Tok)
    | 0, _ => none
    | fuel+1, ts =>
      let (neg, r) := parseNeg ts
      match parseBasic r with
      | some (b, r') => some (.basic neg b, r')
      | none => do
        let r ← expect "(" r
        let (c, r) ← parseCond fuel r
        let r ← expect ")" r
        pure (.sub neg c, r)
end

def parseTokens (ts : List Tok) : Option Cond :=
  match parseCond (2 * ts.length + 2) ts with
  | some (c, []) => some c
  | _ => none

inductive ParseResult
  | ok (c : Cond)
  | reject
  | unsupported

/-- `filter.Parser.ParseString` -/
def parse (s : String) : ParseResult :=
  match lex s with
  | .ok ts => match parseTokens ts with
    | some c => .ok c
    | none => .reject
  | .reject => .reject
  | .unsupported => .unsupported

/-! ### the documented grammar inside the accepted language

participle matches literals on the token value after unquoting, and the scanner skips Go comments,
so the implementation accepts more than the documented grammar: a quoted string may stand for a
keyword or punctuation (`"NOT" attributes:x`), and comments may appear anywhere.  `docVerdict`
classifies an accepted input. -/

/-- does the text contain a Go comment outside a string literal? -/
def hasCommentAux : Bool → List Char → Bool
  | _, [] => false
  | true, '\\' :: _ :: r => hasCommentAux true r
  | true, '"' :: r => hasCommentAux false r
  | true, _ :: r => hasCommentAux true r
  | false, '"' :: r => hasCommentAux true r
  | false, '/' :: '/' :: _ => true
  | false, '/' :: '*' :: _ => true
  | false, _ :: r => hasCommentAux false r

/-- in an accepted token list a string token is a name or a value iff it follows `:` `.` `=` `,` -/
def strPositionsOk : Option Tok → List Tok → Bool
  | _, [] => true
  | prev, .str s :: r =>
    (match prev with
     | some (.sym c) => c == ':' || c == '.' || c == '=' || c == ','
     | _ => false) && strPositionsOk (some (.str s)) r
  | _, t :: r => strPositionsOk (some t) r

inductive DocVerdict | doc | quotedKeyword | comment
deriving DecidableEq, Repr

/-- for an input the implementation accepts: is it a sentence of the documented grammar? -/
def docVerdict (s : String) : DocVerdict :=
  if hasCommentAux false s.toList then .comment
  else match lex s with
    | .ok ts => if strPositionsOk none ts then .doc else .quotedKeyword
    | _ => .doc

/-! ### printer (`AsFilter`) -/

/-- `formatAttrName`'s identifier test on ASCII; the empty name is **not** an identifier
    (the lexer cannot produce an empty `Ident`). -/
def isIdentName (n : String) : Bool :=
  match n.toList with
  | [] => false
  | c :: r => isAsciiLetter c && r.all isIdentRest

def nameTok (n : String) : Tok := if isIdentName n then .ident n else .str n

def printBasic : Basic → List Tok
  | .has n => [.ident "attributes", .sym ':', nameTok n]
  | .value n .eq v => [.ident "attributes", .sym '.', nameTok n, .sym '=', .str v]
  | .value n .ne v => [.ident "attributes", .sym '.', nameTok n, .sym '!', .sym '=', .str v]
  | .hasPrefix n v =>
    [.ident "hasPrefix", .sym '(', .ident "attributes", .sym '.', nameTok n, .sym ',', .str v, .sym ')']

mutual
  def printCond : Cond → List Tok
    | .mk t .none => printTerm t
    | .mk t (.ands ts) => printTerm t ++ printTerms "AND" ts
    | .mk t (.ors ts) => printTerm t ++ printTerms "OR" ts
  def printTerms (kw : String) : Terms → List Tok
    | .one t => .ident kw :: printTerm t
    | .cons t ts => .ident kw :: (printTerm t ++ printTerms kw ts)
  def printTerm : Term → List Tok
    | .basic neg b => (if neg then [.ident "NOT"] else []) ++ printBasic b
    | .sub neg c => (if neg then [.ident "NOT"] else []) ++ (.sym '(' :: (printCond c ++ [.sym ')']))
end

def hexDigit (n : Nat) : Char := if n < 10 then Char.ofNat (48 + n) else Char.ofNat (87 + n)

/-- `strconv.Quote` on one character (ASCII exact; non-ASCII passed through as printable) -/
def quoteChar (c : Char) : List Char :=
  if c == '"' then ['\\', '"']
  else if c == '\\' then ['\\', '\\']
  else if c == '\x07' then ['\\', 'a']
  else if c == '\x08' then ['\\', 'b']
  else if c == '\x0c' then ['\\', 'f']
  else if c == '\n' then ['\\', 'n']
  else if c == '\r' then ['\\', 'r']
  else if c == '\t' then ['\\', 't']
  else if c == '\x0b' then ['\\', 'v']
  else if c.toNat < 32 || c.toNat == 127 then ['\\', 'x', hexDigit (c.toNat / 16), hexDigit (c.toNat % 16)]
  else [c]

def quoteStr (s : String) : List Char := '"' :: (s.toList.flatMap quoteChar ++ ['"'])

/-- name as `formatAttrName` prints it (with the empty name quoted) -/
def renderName (n : String) : List Char := if isIdentName n then n.toList else quoteStr n

def renderBasic : Basic → List Char
  | .has n => "attributes:".toList ++ renderName n
  | .value n .eq v => "attributes.".toList ++ renderName n ++ ['='] ++ quoteStr v
  | .value n .ne v => "attributes.".toList ++ renderName n ++ ['!', '='] ++ quoteStr v
  | .hasPrefix n v => "hasPrefix(attributes.".toList ++ renderName n ++ [','] ++ quoteStr v ++ [')']

mutual
  /-- `Condition.AsFilter` -/
  def renderCond : Cond → List Char
    | .mk t .none => renderTerm t
    | .mk t (.ands ts) => renderTerm t ++ renderTerms " AND ".toList ts
    | .mk t (.ors ts) => renderTerm t ++ renderTerms " OR ".toList ts
  /-- `appendTerms` -/
  def renderTerms (kw : List Char) : Terms → List Char
    | .one t => kw ++ renderTerm t
    | .cons t ts => kw ++ renderTerm t ++ renderTerms kw ts
  /-- `Term.AsFilter` -/
  def renderTerm : Term → List Char
    | .basic neg b => (if neg then "NOT ".toList else []) ++ renderBasic b
    | .sub neg c => (if neg then "NOT ".toList else []) ++ ('(' :: (renderCond c ++ [')']))
end

/-- exact text `AsFilter` writes -/
def render (c : Cond) : String := String.ofList (renderCond c)

end Mmmbbb.Filter
