/-
The fragment of the operations on which C05 is proved outright (`Properties/C05.lean`:
`C05_fragment`).  Core Lean only: linked into the `driver` executable, which reports for every
replayed history how many of its steps lie inside the fragment.
-/
import Mmmbbb.Model.Step
namespace Mmmbbb

/-- the fragment: every operation of the store except the two seeks and the creation of a
    subscription with a dead-letter policy — clock advances, topic creation and deletion,
    subscription creation (no dead-letter policy), deletion and expiry, snapshot creation and
    deletion, publishes (single and batched, the clock ticking between messages), pulls (waiting or
    not), deadline changes (positive, zero — the nack of a client library — and negative), nacks,
    acknowledgements of deliveries that have been handed out (the only ack ids a client can hold),
    the delay injector, the dead-letter sweep (it finds no candidate here) and all six prune jobs -/
def fragOk (st : St) : Op → Prop
  | .advance d => 0 ≤ d
  | .createTopic _ _ _ => True
  | .deleteTopic _ => True
  | .snapshot _ _ _ _ => True
  | .deleteSnap _ => True
  | .createSub p _ => p.maxAttempts = 0
  | .deleteSub _ => True
  | .expireSubs _ _ => True
  | .publish _ tick _ => 0 < tick
  | .pull _ _ _ _ wait _ => 0 ≤ wait
  | .ack ids => ∀ d ∈ st.db.dels, ids.contains d.id = true → 0 < d.attempts
  | .delay _ _ => True
  | .nack _ _ _ => True
  | .pruneCompletedDeliveries _ _ _ => True
  | .pruneExpiredDeliveries _ _ => True
  | .setDelay _ _ => True
  | .dlSweep _ _ _ => True
  | .pruneCompletedMessages _ _ _ => True
  | .pruneDeletedSubDeliveries _ _ _ => True
  | .pruneDeletedSubs _ _ _ => True
  | .pruneDeletedTopics _ _ _ => True
  | _ => False

instance (st : St) (op : Op) : Decidable (fragOk st op) := by
  cases op <;> unfold fragOk <;> infer_instance

end Mmmbbb
