/-
The fragment of the operations on which C05 is proved outright (`Properties/C05.lean`:
`C05_fragment`).  Core Lean only: linked into the `driver` executable, which reports for every
replayed history how many of its steps lie inside the fragment.
-/
import Mmmbbb.Model.Step
import Mmmbbb.Model.Ordered2
namespace Mmmbbb

/-- the fragment: every operation of the store except the two seeks and the creation of a
    subscription with a dead-letter policy — clock advances, topic creation and deletion,
    subscription creation (no dead-letter policy), deletion and expiry, snapshot creation and
    deletion, publishes (single and batched, the clock ticking between messages), pulls (waiting or
    not), deadline changes (positive, zero — the nack of a client library — and negative), nacks,
    acknowledgements of deliveries that have been handed out (the only ack ids a client can hold),
    the delay injector, the dead-letter sweep (it finds no candidate here) and all six prune jobs -/
def fragOk (st : St) : Op → Prop
  | .advance d => 0 ≤ d
  | .createTopic _ _ _ => True
  | .deleteTopic _ => True
  | .snapshot _ _ _ _ => True
  | .deleteSnap _ => True
  | .createSub p _ => p.maxAttempts = 0
  | .deleteSub _ => True
  | .expireSubs _ _ => True
  | .publish _ tick _ => 0 < tick
  | .pull _ _ _ _ wait _ => 0 ≤ wait
  | .ack ids => ∀ d ∈ st.db.dels, ids.contains d.id = true → 0 < d.attempts
  | .delay _ _ => True
  | .nack _ _ _ => True
  | .pruneCompletedDeliveries _ _ _ => True
  | .pruneExpiredDeliveries _ _ => True
  | .setDelay _ _ => True
  | .dlSweep _ _ _ => True
  | .pruneCompletedMessages _ _ _ => True
  | .pruneDeletedSubDeliveries _ _ _ => True
  | .pruneDeletedSubs _ _ _ => True
  | .pruneDeletedTopics _ _ _ => True
  | _ => False

instance (st : St) (op : Op) : Decidable (fragOk st op) := by
  cases op <;> unfold fragOk <;> infer_instance

/-- the fragment with dead-letter policies: **every operation of the store except the two seeks** —
    clock advances, topic creation and deletion, subscription creation with *any* configuration
    (dead-letter policies, ordering, filters), deletion and expiry, snapshots, the delay injector,
    publishes — single and batched, the clock may stand still between messages and between operations —,
    pulls, nacks, deadline changes, acknowledgements of handed-out deliveries, the dead-letter sweep and
    all six prune jobs.  The three jobs that delete delivery rows carry the one assumption about the SQL
    engine the proof needs (`Ord2.tieClosed`, a decidable condition on the rows the job's `SELECT … LIMIT n`
    returned): with a row they take the earlier rows of its key that share its publish time. -/
def fragOkDL (st : St) : Op → Prop
  | .advance d => 0 ≤ d
  | .createTopic _ _ _ => True
  | .deleteTopic _ => True
  | .createSub _ _ => True
  | .deleteSub _ => True
  | .expireSubs _ _ => True
  | .snapshot _ _ _ _ => True
  | .deleteSnap _ => True
  | .setDelay _ _ => True
  | .publish _ tick _ => 0 ≤ tick
  | .pull _ _ _ _ wait _ => 0 ≤ wait
  | .ack ids => ∀ d ∈ st.db.dels, ids.contains d.id = true → 0 < d.attempts
  | .nack _ _ _ => True
  | .delay _ _ => True
  | .dlSweep _ _ _ => True
  | .pruneCompletedDeliveries _ _ v => Ord2.tieClosed st.db v = true
  | .pruneExpiredDeliveries _ v => Ord2.tieClosed st.db v = true
  | .pruneDeletedSubDeliveries _ _ v => Ord2.tieClosed st.db v = true
  | .pruneCompletedMessages _ _ _ => True
  | .pruneDeletedSubs _ _ _ => True
  | .pruneDeletedTopics _ _ _ => True
  | .seekTime _ _ => False
  | .seekSnap _ _ => False

instance (st : St) (op : Op) : Decidable (fragOkDL st op) := by
  cases op <;> unfold fragOkDL <;> infer_instance


end Mmmbbb
