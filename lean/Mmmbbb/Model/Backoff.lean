/-
Back-off arithmetic of `actions.NextDelayFor` in exact integer arithmetic.

Go computes `math.Pow(1.1, n) * min.Seconds()` in float64, caps it at `max.Seconds()` and converts
back to nanoseconds; the model computes `min(max, ⌊min·11ⁿ/10ⁿ⌋)` exactly.  The float rounding is
the stated modelling gap: the correspondence check accepts an observed delay within `tol` of the
exact value (`delayOk`).
-/
import Mmmbbb.Extracted
namespace Mmmbbb.Backoff

def effMin (minB : Option Int) : Int :=
  match minB with
  | some m => if 0 < m then m else Extracted.defaultMinDelay
  | none => Extracted.defaultMinDelay

def effMax (maxB : Option Int) : Int :=
  match maxB with
  | some m => if 0 < m then m else Extracted.defaultMaxDelay
  | none => Extracted.defaultMaxDelay

/-- uncapped delay `⌊min·(num/den)ⁿ⌋` -/
def raw (mn : Int) (n : Nat) : Int :=
  mn * (Extracted.retryBackoffNum ^ n : Nat) / (Extracted.retryBackoffDen ^ n : Nat)

/-- nominal retry delay after attempt `n` -/
def nominal (minB maxB : Option Int) (n : Nat) : Int :=
  let r := raw (effMin minB) n
  let mx := effMax maxB
  if mx < r then mx else r

/-- float tolerance granted to the implementation: 2⁻⁴⁰ relative plus 2 ns -/
def tol (x : Int) : Int := x / 1099511627776 + 2

def oneSecond : Int := 1000000000

/-- is `δ` a delay the implementation may produce for nominal value `nom` ?
    (jitter in `[0, 1 s)` only when the nominal delay exceeds 0.5 s) -/
def delayOk (nom δ : Int) : Bool :=
  decide (nom - tol nom ≤ δ) &&
    (if nom + tol nom ≤ oneSecond / 2 then decide (δ ≤ nom + tol nom)
     else decide (δ < nom + tol nom + oneSecond))

end Mmmbbb.Backoff
