/-
Which tables each action leaves alone (mechanical case analysis).
-/
import Mmmbbb.Proofs.Lease
namespace Mmmbbb

/-- unfold an action, split all its branches, and close each one: error branches are impossible,
    success branches leave the field untouched by `rfl` -/
macro "action_frame" f:ident h:ident : tactic =>
  `(tactic| (unfold $f at $h:ident; (try simp only at $h:ident); (repeat' split at $h:ident) <;>
      first | (injection $h:ident with $h:ident; subst $h:ident; rfl) | cases $h:ident))

section
variable {db : Db} {now : Time}

/-! messages -/
theorem createTopic_msgs {n : String} {l : StrMap} {i : Id} {o : TxOut Id}
    (h : createTopic db now n l i = .ok o) : o.db.msgs = db.msgs := by action_frame createTopic h
theorem deleteTopic_msgs {n : String} {o : TxOut Nat}
    (h : deleteTopic db now n = .ok o) : o.db.msgs = db.msgs := by action_frame deleteTopic h
theorem createSub_msgs {p : CreateSubParams} {i : Id} {o : TxOut Id}
    (h : createSub db now p i = .ok o) : o.db.msgs = db.msgs := by
  obtain ⟨_, _, _, _, _, _, hdb, _⟩ := createSub_ok h; rw [hdb]
theorem deleteSub_msgs {n : String} {o : TxOut Nat}
    (h : deleteSub db now n = .ok o) : o.db.msgs = db.msgs := by action_frame deleteSub h
theorem seekTime_msgs {n : String} {t : Time} {o : TxOut (Nat × Nat)}
    (h : seekTime db now n t = .ok o) : o.db.msgs = db.msgs := by action_frame seekTime h
theorem seekSnap_msgs {n m : String} {o : TxOut (Nat × Nat)}
    (h : seekSnap db now n m = .ok o) : o.db.msgs = db.msgs := by action_frame seekSnap h
theorem createSnapshot_msgs {n s : String} {l : StrMap} {i : Id} {o : TxOut Id}
    (h : createSnapshot db now n s l i = .ok o) : o.db.msgs = db.msgs := by action_frame createSnapshot h
theorem deleteSnapshot_msgs {n : String} {o : TxOut Unit}
    (h : deleteSnapshot db n = .ok o) : o.db.msgs = db.msgs := by action_frame deleteSnapshot h
theorem setDelay_msgs {n : String} {d : Int} {o : TxOut Unit}
    (h : setDelay db n d = .ok o) : o.db.msgs = db.msgs := by action_frame setDelay h
theorem expireSubs_msgs {mx : Nat} {v : List Id} {o : TxOut Nat}
    (h : expireSubs db now mx v = .ok o) : o.db.msgs = db.msgs := by action_frame expireSubs h
theorem pruneCompletedDeliveries_msgs {a : Int} {mx : Nat} {v : List Id} {o : TxOut Nat}
    (h : pruneCompletedDeliveries db now a mx v = .ok o) : o.db.msgs = db.msgs := by
  action_frame pruneCompletedDeliveries h
theorem pruneExpiredDeliveries_msgs {mx : Nat} {v : List Id} {o : TxOut Nat}
    (h : pruneExpiredDeliveries db now mx v = .ok o) : o.db.msgs = db.msgs := by
  action_frame pruneExpiredDeliveries h
theorem pruneDeletedSubDeliveries_msgs {a : Int} {mx : Nat} {v : List Id} {o : TxOut Nat}
    (h : pruneDeletedSubDeliveries db now a mx v = .ok o) : o.db.msgs = db.msgs := by
  action_frame pruneDeletedSubDeliveries h
theorem pruneDeletedSubs_msgs {a : Int} {mx : Nat} {v : List Id} {o : TxOut Nat}
    (h : pruneDeletedSubs db now a mx v = .ok o) : o.db.msgs = db.msgs := by action_frame pruneDeletedSubs h
theorem pruneDeletedTopics_msgs {a : Int} {mx : Nat} {v : List Id} {o : TxOut Nat}
    (h : pruneDeletedTopics db now a mx v = .ok o) : o.db.msgs = db.msgs := by action_frame pruneDeletedTopics h

/-- publishing appends message rows and never rewrites one -/
theorem publishOne_msgs {t : Topic} {pm : PubMsg} {db' : Db} {w : List Id}
    (h : publishOne db t now pm = .ok (db', w)) : ∃ m, db'.msgs = db.msgs ++ [m] ∧ m.id = pm.id := by
  unfold publishOne at h
  split at h
  · cases h
  · simp only at h
    obtain ⟨rows, _, h1, _⟩ := deliverAll_shape h
    subst h1
    exact ⟨_, rfl, rfl⟩

theorem publishLoop_msgs (t : Topic) (tick : Int) :
    ∀ (msgs : List PubMsg) (db : Db) (now : Time) (wk : List Id) (db' : Db) (wk' : List Id),
      publishLoop t tick db now wk msgs = .ok (db', wk') → ∀ m ∈ db.msgs, m ∈ db'.msgs := by
  intro msgs
  induction msgs with
  | nil =>
    intro db now wk db' wk' h m hm
    unfold publishLoop at h
    injection h with h; injection h with h1 _; subst h1; exact hm
  | cons pm r ih =>
    intro db now wk db' wk' h m hm
    unfold publishLoop at h
    split at h
    · cases h
    · rename_i db1 w h1
      obtain ⟨m1, hm1, _⟩ := publishOne_msgs h1
      exact ih _ _ _ _ _ h m (by rw [hm1]; exact List.mem_append_left _ hm)

theorem publish_msgs {topic : String} {tick : Int} {msgs : List PubMsg} {o : TxOut (List Id)}
    (h : publish db now topic tick msgs = .ok o) : ∀ m ∈ db.msgs, m ∈ o.db.msgs := by
  unfold publish at h
  split at h
  · cases h
  · split at h
    · cases h
    · rename_i db' wk hl
      injection h with h; subst h
      exact publishLoop_msgs _ _ _ _ _ _ _ _ hl

end

/-- **message rows are immutable**: no operation rewrites a message row; every operation except the
    unreferenced-message prune job keeps every message row exactly as it is. -/
theorem step_msgs_preserved (st : St) (op : Op)
    (hop : ∀ a mx v, op ≠ .pruneCompletedMessages a mx v) :
    ∀ m ∈ st.db.msgs, m ∈ (step st op).1.db.msgs := by
  intro m hm
  have of_eq : ∀ {l' : List Msg}, l' = st.db.msgs → m ∈ l' := fun e => e ▸ hm
  cases op with
  | advance d => exact hm
  | createTopic n l i =>
    simp only [step, finish_db]
    cases h : createTopic st.db st.now n l i with
    | error e => exact hm
    | ok o => exact of_eq (createTopic_msgs h)
  | deleteTopic n =>
    simp only [step, finish_db]
    cases h : deleteTopic st.db st.now n with
    | error e => exact hm
    | ok o => exact of_eq (deleteTopic_msgs h)
  | createSub p i =>
    simp only [step, finish_db]
    cases h : createSub st.db st.now p i with
    | error e => exact hm
    | ok o => exact of_eq (createSub_msgs h)
  | deleteSub n =>
    simp only [step, finish_db]
    cases h : deleteSub st.db st.now n with
    | error e => exact hm
    | ok o => exact of_eq (deleteSub_msgs h)
  | publish t tick ms =>
    simp only [step]
    cases h : publish st.db st.now t tick ms with
    | error e => exact hm
    | ok o => exact publish_msgs h m hm
  | pull s mx mb strict wait obs =>
    simp only [step]
    cases h : pull st.db st.now s mx mb strict wait obs with
    | error e => exact hm
    | ok r => obtain ⟨o, now'⟩ := r; exact of_eq (pull_mono h).2.2.1
  | ack ids =>
    simp only [step, finish_db]
    cases h : ack st.db st.now ids with
    | error e => exact hm
    | ok o => exact of_eq (ack_mono h).2.2.2.1
  | nack ids ds fw =>
    simp only [step, finish_db]
    cases h : nack st.db st.now ids ds fw with
    | error e => exact hm
    | ok o => exact of_eq (nack_mono h).2.2.2.1
  | delay ids d =>
    simp only [step, finish_db]
    cases h : delay st.db st.now ids d with
    | error e => exact hm
    | ok o => exact of_eq (delay_mono h).2.2.2.1
  | dlSweep mx v fw =>
    simp only [step, finish_db]
    cases h : dlSweep st.db st.now mx v fw with
    | error e => exact hm
    | ok o => exact of_eq (dlSweep_mono h).2.2.2.1
  | seekTime s t =>
    simp only [step, finish_db]
    cases h : seekTime st.db st.now s t with
    | error e => exact hm
    | ok o => exact of_eq (seekTime_msgs h)
  | seekSnap s n =>
    simp only [step, finish_db]
    cases h : seekSnap st.db st.now s n with
    | error e => exact hm
    | ok o => exact of_eq (seekSnap_msgs h)
  | snapshot n s l i =>
    simp only [step, finish_db]
    cases h : createSnapshot st.db st.now n s l i with
    | error e => exact hm
    | ok o => exact of_eq (createSnapshot_msgs h)
  | deleteSnap n =>
    simp only [step, finish_db]
    cases h : deleteSnapshot st.db n with
    | error e => exact hm
    | ok o => exact of_eq (deleteSnapshot_msgs h)
  | setDelay n d =>
    simp only [step, finish_db]
    cases h : setDelay st.db n d with
    | error e => exact hm
    | ok o => exact of_eq (setDelay_msgs h)
  | expireSubs mx v =>
    simp only [step, finish_db]
    cases h : expireSubs st.db st.now mx v with
    | error e => exact hm
    | ok o => exact of_eq (expireSubs_msgs h)
  | pruneCompletedDeliveries a mx v =>
    simp only [step, finish_db]
    cases h : pruneCompletedDeliveries st.db st.now a mx v with
    | error e => exact hm
    | ok o => exact of_eq (pruneCompletedDeliveries_msgs h)
  | pruneExpiredDeliveries mx v =>
    simp only [step, finish_db]
    cases h : pruneExpiredDeliveries st.db st.now mx v with
    | error e => exact hm
    | ok o => exact of_eq (pruneExpiredDeliveries_msgs h)
  | pruneCompletedMessages a mx v => exact absurd rfl (hop a mx v)
  | pruneDeletedSubDeliveries a mx v =>
    simp only [step, finish_db]
    cases h : pruneDeletedSubDeliveries st.db st.now a mx v with
    | error e => exact hm
    | ok o => exact of_eq (pruneDeletedSubDeliveries_msgs h)
  | pruneDeletedSubs a mx v =>
    simp only [step, finish_db]
    cases h : pruneDeletedSubs st.db st.now a mx v with
    | error e => exact hm
    | ok o => exact of_eq (pruneDeletedSubs_msgs h)
  | pruneDeletedTopics a mx v =>
    simp only [step, finish_db]
    cases h : pruneDeletedTopics st.db st.now a mx v with
    | error e => exact hm
    | ok o => exact of_eq (pruneDeletedTopics_msgs h)

/-- the loop never hands out more rows than it is given candidates -/
theorem pullLoop_length (s : Sub) (now : Time) (maxBytes : Nat) (strict : Bool) (obs : PullObs) :
    ∀ (cands : List Delivery) (i : Nat) (acc acc' : PullAcc),
      pullLoop s now maxBytes strict obs i cands acc = .ok acc' →
      acc'.delivered.length + acc'.numDL ≤ acc.delivered.length + acc.numDL + cands.length := by
  intro cands
  induction cands with
  | nil =>
    intro i acc acc' h
    unfold pullLoop at h
    injection h with h; subst h; simp
  | cons d r ih =>
    intro i acc acc' h
    unfold pullLoop at h
    split at h
    · cases h
    · split at h
      · have := ih _ _ _ h; simp only [List.length_cons]; omega
      · split at h
        · split at h
          · cases h
          · have := ih _ _ _ h; simp only [List.length_cons] at *; omega
        · split at h
          · cases h
          · have := ih _ _ _ h
            simp only [List.length_append, List.length_cons, List.length_nil] at *; omega

end Mmmbbb
