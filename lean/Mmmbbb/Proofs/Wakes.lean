/-
Wake coverage of the store model: the writers the no-lost-wake-up property names (publish, ack,
zero-deadline nack, both seeks, dead-lettering with its forward) change, add or re-open delivery rows
only on subscriptions contained in their wake set.  This is the store-side counterpart of the
hypothesis `covers` of the protocol invariant (Proofs/Notify.lean): nothing can become deliverable
on a subscription that is not woken, except through the passing of time.
-/
import Mmmbbb.Properties.C01
namespace Mmmbbb

/-- the delivery rows of subscriptions outside `w` are the same in `l` and `l'` -/
def SameUnwoken (w : List Id) (l l' : List Delivery) : Prop :=
  (∀ d ∈ l, d.subId ∉ w → d ∈ l') ∧ (∀ d' ∈ l', d'.subId ∉ w → d' ∈ l)

theorem SameUnwoken.refl (w : List Id) (l : List Delivery) : SameUnwoken w l l :=
  ⟨fun _ h _ => h, fun _ h _ => h⟩

theorem SameUnwoken.trans {w : List Id} {a b c : List Delivery} (h1 : SameUnwoken w a b) (h2 : SameUnwoken w b c) :
    SameUnwoken w a c :=
  ⟨fun d hd hw => h2.1 d (h1.1 d hd hw) hw, fun d hd hw => h1.2 d (h2.2 d hd hw) hw⟩

theorem SameUnwoken.mono {w w' : List Id} {a b : List Delivery} (h : SameUnwoken w a b) (hs : ∀ x ∈ w, x ∈ w') :
    SameUnwoken w' a b :=
  ⟨fun d hd hw => h.1 d hd (fun hx => hw (hs _ hx)), fun d hd hw => h.2 d hd (fun hx => hw (hs _ hx))⟩

/-- an `UPDATE … WHERE p` whose every matching row belongs to a woken subscription -/
theorem updateWhere_unwoken (w : List Id) (p : Delivery → Bool) (f : Delivery → Delivery) (l : List Delivery)
    (hp : ∀ d ∈ l, p d = true → d.subId ∈ w) (hf : ∀ d, (f d).subId = d.subId) :
    SameUnwoken w l (updateWhere p f l) := by
  unfold updateWhere
  constructor
  · intro d hd hw
    refine List.mem_map.mpr ⟨d, hd, ?_⟩
    have : p d = false := by
      cases hpd : p d with
      | false => rfl
      | true => exact absurd (hp d hd hpd) hw
    simp [this]
  · intro d' hd' hw
    obtain ⟨d, hd, rfl⟩ := List.mem_map.mp hd'
    by_cases hpd : p d = true
    · simp only [hpd, if_true] at hw ⊢
      rw [hf] at hw
      exact absurd (hp d hd hpd) hw
    · simp only [hpd] at hw ⊢
      exact hd

theorem updateWhere_none {α} (p : α → Bool) (f : α → α) (l : List α) (h : countWhere p l = 0) :
    updateWhere p f l = l := by
  unfold updateWhere
  have hnone : ∀ x ∈ l, p x = false := by
    intro x hx
    cases hpx : p x with
    | false => rfl
    | true =>
      have : x ∈ l.filter p := List.mem_filter.mpr ⟨hx, hpx⟩
      unfold countWhere at h
      have := List.length_pos_of_mem this
      omega
  calc l.map (fun x => if p x = true then f x else x) = l.map id := by
        apply List.map_congr_left
        intro x hx
        simp [hnone x hx]
    _ = l := List.map_id l

theorem mem_dedup_map_filter (p : Delivery → Bool) (l : List Delivery) (d : Delivery) (hd : d ∈ l) (hp : p d = true) :
    d.subId ∈ dedup ((l.filter p).map (·.subId)) := by
  exact mem_dedup (List.mem_map.mpr ⟨d, List.mem_filter.mpr ⟨hd, hp⟩, rfl⟩)

/-- **ack** changes rows only of the subscriptions it wakes -/
theorem ack_unwoken {db : Db} {now : Time} {ids : List Id} {o : TxOut Nat} (h : ack db now ids = .ok o) :
    SameUnwoken o.wakes db.dels o.db.dels := by
  unfold ack at h
  injection h with h; subst h
  exact updateWhere_unwoken _ _ _ _ (fun d hd hp => mem_dedup_map_filter _ _ d hd hp) (fun _ => rfl)

/-- **zero-deadline nack** (ModifyAckDeadline 0): rows change only on woken subscriptions -/
theorem delay0_unwoken {db : Db} {now : Time} {ids : List Id} {Δ : Int} (hΔ : Δ ≤ 0) {o : TxOut Nat}
    (h : delay db now ids Δ = .ok o) : SameUnwoken o.wakes db.dels o.db.dels := by
  unfold delay at h
  simp only [hΔ, if_true] at h
  injection h with h; subst h
  exact updateWhere_unwoken _ _ _ _ (fun d hd hp => mem_dedup_map_filter _ _ d hd hp) (fun _ => rfl)

/-- a subscription-local update -/
theorem updateWhere_local (sid : Id) (p : Delivery → Bool) (f : Delivery → Delivery) (l : List Delivery)
    (hp : ∀ d, p d = true → d.subId = sid) (hf : ∀ d, (f d).subId = d.subId) :
    SameUnwoken [sid] l (updateWhere p f l) :=
  updateWhere_unwoken [sid] p f l (fun d _ hpd => by rw [hp d hpd]; exact List.mem_singleton.mpr rfl) hf

/-- **seek to a time**: rows of other subscriptions are untouched, and the seeked subscription is
    woken unless no row changed at all -/
theorem seekTime_unwoken {db : Db} {now : Time} {sub : String} {T : Time} {o : TxOut (Nat × Nat)}
    (h : seekTime db now sub T = .ok o) :
    ∃ s, db.liveSubByName sub = some s ∧ SameUnwoken [s.id] db.dels o.db.dels ∧ (o.wakes = [s.id] ∨ o.db.dels = db.dels) := by
  unfold seekTime at h
  split at h
  · cases h
  · rename_i s hs
    simp only at h
    injection h with h; subst h
    refine ⟨s, hs, ?_, ?_⟩
    · refine SameUnwoken.trans (updateWhere_local s.id _ _ _ ?_ ?_) (updateWhere_local s.id _ _ _ ?_ ?_)
      all_goals first
        | (intro _; rfl)
        | (intro d hp; simp only [Bool.and_eq_true, beq_iff_eq] at hp; exact hp.1.1.1)
    · simp only
      split
      · exact Or.inl rfl
      · rename_i hz
        right
        simp only [bne_iff_ne, ne_eq, Bool.or_eq_true, not_or, Decidable.not_not] at hz
        rw [updateWhere_none _ _ _ hz.1] at hz ⊢
        rw [updateWhere_none _ _ _ hz.2]

/-- **seek to a snapshot**: likewise -/
theorem seekSnap_unwoken {db : Db} {now : Time} {sub snap : String} {o : TxOut (Nat × Nat)}
    (h : seekSnap db now sub snap = .ok o) :
    ∃ s, db.liveSubByName sub = some s ∧ SameUnwoken [s.id] db.dels o.db.dels ∧ (o.wakes = [s.id] ∨ o.db.dels = db.dels) := by
  unfold seekSnap at h
  split at h
  · cases h
  · rename_i s hs
    split at h
    · cases h
    · rename_i sn hsn
      simp only at h
      injection h with h; subst h
      have loc : ∀ (p : Delivery → Bool) (f : Delivery → Delivery) (l : List Delivery),
          (∀ d, p d = true → d.subId = s.id) → (∀ d, (f d).subId = d.subId) → SameUnwoken [s.id] l (updateWhere p f l) :=
        fun p f l hp hf => updateWhere_local s.id p f l hp hf
      by_cases he : sn.ackedIds.isEmpty = true
      · simp only [he, if_true]
        refine ⟨s, hs, ?_, ?_⟩
        · refine SameUnwoken.trans (loc _ _ _ ?_ ?_) (loc _ _ _ ?_ ?_)
          all_goals first
            | (intro _; rfl)
            | (intro d hp; simp only [Bool.and_eq_true, beq_iff_eq] at hp; exact hp.1.1.1)
        · split
          · exact Or.inl rfl
          · rename_i hz
            right
            simp only [Nat.add_zero, bne_iff_ne, ne_eq, Bool.or_eq_true, not_or, Decidable.not_not] at hz
            rw [updateWhere_none _ _ _ hz.1] at hz ⊢
            rw [updateWhere_none _ _ _ hz.2]
      · have he' : sn.ackedIds.isEmpty = false := by simpa using he
        simp only [he', Bool.false_eq_true, if_false]
        refine ⟨s, hs, ?_, ?_⟩
        · refine SameUnwoken.trans (SameUnwoken.trans (loc _ _ _ ?_ ?_) (loc _ _ _ ?_ ?_)) (loc _ _ _ ?_ ?_)
          all_goals first
            | (intro _; rfl)
            | (intro d hp; simp only [Bool.and_eq_true, beq_iff_eq] at hp; exact hp.1.1.1)
        · split
          · exact Or.inl rfl
          · rename_i hz
            right
            simp only [Bool.false_eq_true, if_false, bne_iff_ne, ne_eq, Bool.or_eq_true, not_or, Decidable.not_not] at hz
            have h1 := hz.1
            have z1 : countWhere (fun d => d.subId == s.id && decide (now ≤ d.expiresAt) && decide (d.publishedAt < sn.ackedBefore) && d.completedAt.isNone) db.dels = 0 := by omega
            rw [updateWhere_none _ _ _ z1] at hz h1 ⊢
            have z2 : countWhere (fun d => d.subId == s.id && decide (now ≤ d.expiresAt) && sn.ackedIds.contains d.msgId && d.completedAt.isNone) db.dels = 0 := by omega
            rw [updateWhere_none _ _ _ z2] at hz ⊢
            rw [updateWhere_none _ _ _ hz.2]

/-- **publish**: every new row belongs to a woken subscription; old rows are untouched -/
theorem publishOne_unwoken {db : Db} {t : Topic} {now : Time} {pm : PubMsg} {db' : Db} {w : List Id}
    (h : publishOne db t now pm = .ok (db', w)) : SameUnwoken w db.dels db'.dels := by
  unfold publishOne at h
  split at h
  · cases h
  · simp only at h
    obtain ⟨rows, hrows, hdb, hw⟩ := deliverAll_shape h
    obtain ⟨hsubs, _, _⟩ := mkRows_spec _ _ _ _ _ _ hrows
    subst hdb
    constructor
    · intro d hd _; exact List.mem_append_left _ hd
    · intro d' hd' hnw
      rcases List.mem_append.mp hd' with h1 | h1
      · exact h1
      · exfalso
        apply hnw
        rw [hw, ← hsubs]
        exact List.mem_map.mpr ⟨d', h1, rfl⟩

end Mmmbbb
