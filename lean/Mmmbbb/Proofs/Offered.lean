/-
Pull completeness: a pull whose query returned fewer rows than its LIMIT considered every deliverable
row of the subscription, and every row it considered was handed out, dead-lettered, or left out only
because the response would have exceeded the byte budget.
-/
import Mmmbbb.Proofs.Lease
namespace Mmmbbb

/-- pigeonhole: a duplicate-free list contained in a list of the same length covers it -/
theorem covers_of_nodup_subset_length {α} [DecidableEq α] :
    ∀ (A B : List α), A.Nodup → (∀ x ∈ A, x ∈ B) → A.length = B.length → ∀ y ∈ B, y ∈ A := by
  intro A
  induction A with
  | nil =>
    intro B _ _ hl y hy
    have : B = [] := List.eq_nil_of_length_eq_zero hl.symm
    rw [this] at hy; cases hy
  | cons a A' ih =>
    intro B hnd hsub hl y hy
    have hab : a ∈ B := hsub a List.mem_cons_self
    have hnd' := List.nodup_cons.mp hnd
    have hsub' : ∀ x ∈ A', x ∈ B.erase a := by
      intro x hx
      have hxa : x ≠ a := fun e => hnd'.1 (e ▸ hx)
      exact (List.mem_erase_of_ne hxa).mpr (hsub x (List.mem_cons_of_mem _ hx))
    have hl' : A'.length = (B.erase a).length := by
      rw [List.length_erase_of_mem hab]
      simp only [List.length_cons] at hl
      omega
    by_cases hya : y = a
    · rw [hya]; exact List.mem_cons_self
    · exact List.mem_cons_of_mem _ (ih (B.erase a) hnd'.2 hsub' hl' y ((List.mem_erase_of_ne hya).mpr hy))

theorem mem_of_findDel {l : List Delivery} {i : Id} {d : Delivery} (h : findDel l i = some d) : d ∈ l ∧ d.id = i := by
  unfold findDel at h
  exact ⟨List.mem_of_find?_eq_some h, by simpa using List.find?_some h⟩

/-- **candidates are complete below the LIMIT** -/
theorem cands_complete (isElig : Delivery → Bool) (dels : List Delivery) (cands : List Delivery) (max : Nat)
    (hok : candsOk isElig (dels.filter isElig) cands max = true)
    (hmem : ∀ c ∈ cands, c ∈ dels) (hlt : cands.length < max) :
    ∀ e ∈ dels, isElig e = true → ∃ c ∈ cands, c.id = e.id := by
  unfold candsOk at hok
  simp only [Bool.and_eq_true, beq_iff_eq] at hok
  obtain ⟨⟨⟨⟨hlen, hnd⟩, hall⟩, _⟩, _⟩ := hok
  have hlen' : cands.length = (dels.filter isElig).length := by
    have : cands.length = min max (dels.filter isElig).length := hlen
    omega
  have hsub : ∀ x ∈ cands.map (·.id), x ∈ (dels.filter isElig).map (·.id) := by
    intro x hx
    obtain ⟨c, hc, rfl⟩ := List.mem_map.mp hx
    exact List.mem_map.mpr ⟨c, List.mem_filter.mpr ⟨hmem c hc, List.all_eq_true.mp hall c hc⟩, rfl⟩
  have hcov := covers_of_nodup_subset_length (cands.map (·.id)) ((dels.filter isElig).map (·.id))
    ((nodupIds_iff _).mp hnd) hsub (by simp [hlen'])
  intro e he hel
  have : e.id ∈ cands.map (·.id) := hcov e.id (List.mem_map.mpr ⟨e, List.mem_filter.mpr ⟨he, hel⟩, rfl⟩)
  obtain ⟨c, hc, hid⟩ := List.mem_map.mp this
  exact ⟨c, hc, hid⟩

/-- what happens to each candidate of the delivery loop -/
theorem pullLoop_fate (s : Sub) (now : Time) (maxBytes : Nat) (strict : Bool) (obs : PullObs) :
    ∀ (cands : List Delivery) (i : Nat) (acc acc' : PullAcc),
      pullLoop s now maxBytes strict obs i cands acc = .ok acc' →
      acc'.db.msgs = acc.db.msgs ∧ acc.bytes ≤ acc'.bytes ∧ (∀ x ∈ acc.delivered, x ∈ acc'.delivered) ∧
      ∀ d ∈ cands,
        (∃ δ, (d, δ) ∈ acc'.delivered) ∨ (s.dlTarget d).isSome = true ∨
        (∃ m, acc.db.msgById d.msgId = some m ∧ maxBytes < acc'.bytes + m.plen) := by
  intro cands
  induction cands with
  | nil =>
    intro i acc acc' h
    unfold pullLoop at h
    injection h with h; subst h
    exact ⟨rfl, Nat.le_refl _, fun _ hx => hx, fun d hd => by cases hd⟩
  | cons c r ih =>
    intro i acc acc' h
    unfold pullLoop at h
    split at h
    · cases h
    · rename_i m hm
      split at h
      · -- skipped for bytes
        rename_i hskip
        obtain ⟨h1, h2, h3, h4⟩ := ih _ _ _ h
        refine ⟨h1, h2, h3, ?_⟩
        intro d hd
        rcases List.mem_cons.mp hd with rfl | hd
        · right; right
          refine ⟨m, hm, ?_⟩
          simp only [Bool.and_eq_true, decide_eq_true_eq] at hskip
          omega
        · exact h4 d hd
      · split at h
        · -- dead-lettered
          rename_i dlt hdl
          split at h
          · cases h
          · rename_i db' w hdlr
            obtain ⟨h1, h2, h3, h4⟩ := ih _ _ _ h
            have hmsgs : db'.msgs = acc.db.msgs := (deadLetter_other hdlr).2.2.1
            refine ⟨by simpa [hmsgs] using h1, h2, h3, ?_⟩
            intro d hd
            rcases List.mem_cons.mp hd with rfl | hd
            · right; left; rw [hdl]; rfl
            · rcases h4 d hd with a | a | ⟨m', hm', hb⟩
              · exact Or.inl a
              · exact Or.inr (Or.inl a)
              · right; right
                refine ⟨m', ?_, hb⟩
                have : db'.msgById d.msgId = acc.db.msgById d.msgId := by
                  unfold Db.msgById; rw [hmsgs]
                rw [← this]; exact hm'
        · split at h
          · cases h
          · rename_i δ hδ
            obtain ⟨h1, h2, h3, h4⟩ := ih _ _ _ h
            refine ⟨h1, by simp only at h2; omega, fun x hx => h3 x (List.mem_append_left _ hx), ?_⟩
            intro d hd
            rcases List.mem_cons.mp hd with rfl | hd
            · left; exact ⟨δ, h3 _ (List.mem_append_right _ List.mem_cons_self)⟩
            · exact h4 d hd

end Mmmbbb
