/-
Step-level frame facts: which operations leave the deliveries table monotone, what a pull may
hand out.
-/
import Mmmbbb.Proofs.Frame
namespace Mmmbbb

theorem finish_db {α} (st : St) (r : Except Err (TxOut α)) (render : α → String) :
    (finish st r render).1.db = match r with | .ok o => o.db | .error _ => st.db := by
  unfold finish; cases r <;> rfl

/-- actions that do not touch the deliveries table at all -/
theorem createTopic_dels {db : Db} {now : Time} {n : String} {l : StrMap} {i : Id} {o : TxOut Id}
    (h : createTopic db now n l i = .ok o) : o.db.dels = db.dels := by
  unfold createTopic at h
  split at h
  · cases h
  · split at h
    · cases h
    · injection h with h; subst h; rfl

theorem deleteTopic_dels {db : Db} {now : Time} {n : String} {o : TxOut Nat}
    (h : deleteTopic db now n = .ok o) : o.db.dels = db.dels := by
  unfold deleteTopic at h
  simp only at h
  split at h
  · cases h
  · injection h with h; subst h; rfl

theorem createSub_dels {db : Db} {now : Time} {p : CreateSubParams} {i : Id} {o : TxOut Id}
    (h : createSub db now p i = .ok o) : o.db.dels = db.dels := by
  obtain ⟨t, dlId, _, _, _, _, hdb, _⟩ := createSub_ok h
  rw [hdb]

theorem deleteSub_dels {db : Db} {now : Time} {n : String} {o : TxOut Nat}
    (h : deleteSub db now n = .ok o) : o.db.dels = db.dels := by
  unfold deleteSub at h
  simp only at h
  split at h
  · cases h
  · injection h with h; subst h; rfl

theorem createSnapshot_dels {db : Db} {now : Time} {n s : String} {l : StrMap} {i : Id} {o : TxOut Id}
    (h : createSnapshot db now n s l i = .ok o) : o.db.dels = db.dels := by
  unfold createSnapshot at h
  split at h
  · cases h
  · split at h
    · cases h
    · split at h
      · cases h
      · injection h with h; subst h; rfl

theorem deleteSnapshot_dels {db : Db} {n : String} {o : TxOut Unit}
    (h : deleteSnapshot db n = .ok o) : o.db.dels = db.dels := by
  unfold deleteSnapshot at h
  split at h
  · cases h
  · injection h with h; subst h; rfl

theorem setDelay_dels {db : Db} {n : String} {d : Int} {o : TxOut Unit}
    (h : setDelay db n d = .ok o) : o.db.dels = db.dels := by
  unfold setDelay at h
  simp only at h
  split at h
  · cases h
  · injection h with h; subst h; rfl

theorem expireSubs_dels {db : Db} {now : Time} {mx : Nat} {v : List Id} {o : TxOut Nat}
    (h : expireSubs db now mx v = .ok o) : o.db.dels = db.dels := by
  unfold expireSubs at h
  simp only at h
  split at h
  · cases h
  · injection h with h; subst h; rfl

theorem pruneCompletedMessages_dels {db : Db} {now : Time} {a : Int} {mx : Nat} {v : List Id} {o : TxOut Nat}
    (h : pruneCompletedMessages db now a mx v = .ok o) : o.db.dels = db.dels := by
  unfold pruneCompletedMessages at h
  simp only at h
  split at h
  · cases h
  · injection h with h; subst h; rfl

theorem pruneDeletedSubs_dels {db : Db} {now : Time} {a : Int} {mx : Nat} {v : List Id} {o : TxOut Nat}
    (h : pruneDeletedSubs db now a mx v = .ok o) : o.db.dels = db.dels := by
  unfold pruneDeletedSubs at h
  simp only at h
  split at h
  · cases h
  · injection h with h; subst h; rfl

theorem pruneDeletedTopics_dels {db : Db} {now : Time} {a : Int} {mx : Nat} {v : List Id} {o : TxOut Nat}
    (h : pruneDeletedTopics db now a mx v = .ok o) : o.db.dels = db.dels := by
  unfold pruneDeletedTopics at h
  simp only at h
  split at h
  · cases h
  · split at h
    · cases h
    · injection h with h; subst h; rfl

theorem delsMono_of_eq {l l' : List Delivery} (h : l' = l) : DelsMono l l' := h ▸ DelsRel.refl rowRel_mono l

/-- **frame**: every operation except seeks and the delivery prune jobs keeps each delivery row's
    identity, message, subscription, publish instant and retention end, never un-completes it and
    never lowers its attempt counter (failed operations change nothing at all). -/
theorem step_mono (st : St) (op : Op) (hop : op.delsMonotone = true) :
    DelsMono st.db.dels (step st op).1.db.dels := by
  cases op with
  | advance d => exact DelsRel.refl rowRel_mono _
  | createTopic n l i =>
    simp only [step, finish_db]
    cases h : createTopic st.db st.now n l i with
    | error e => exact DelsRel.refl rowRel_mono _
    | ok o => exact delsMono_of_eq (createTopic_dels h)
  | deleteTopic n =>
    simp only [step, finish_db]
    cases h : deleteTopic st.db st.now n with
    | error e => exact DelsRel.refl rowRel_mono _
    | ok o => exact delsMono_of_eq (deleteTopic_dels h)
  | createSub p i =>
    simp only [step, finish_db]
    cases h : createSub st.db st.now p i with
    | error e => exact DelsRel.refl rowRel_mono _
    | ok o => exact delsMono_of_eq (createSub_dels h)
  | deleteSub n =>
    simp only [step, finish_db]
    cases h : deleteSub st.db st.now n with
    | error e => exact DelsRel.refl rowRel_mono _
    | ok o => exact delsMono_of_eq (deleteSub_dels h)
  | publish t tick ms =>
    simp only [step]
    cases h : publish st.db st.now t tick ms with
    | error e => exact DelsRel.refl rowRel_mono _
    | ok o => exact (publish_mono h).1
  | pull s mx mb strict wait obs =>
    simp only [step]
    cases h : pull st.db st.now s mx mb strict wait obs with
    | error e => exact DelsRel.refl rowRel_mono _
    | ok r => obtain ⟨o, now'⟩ := r; exact (pull_mono h).1
  | ack ids =>
    simp only [step, finish_db]
    cases h : ack st.db st.now ids with
    | error e => exact DelsRel.refl rowRel_mono _
    | ok o => exact (ack_mono h).1
  | nack ids ds fw =>
    simp only [step, finish_db]
    cases h : nack st.db st.now ids ds fw with
    | error e => exact DelsRel.refl rowRel_mono _
    | ok o => exact (nack_mono h).1
  | delay ids d =>
    simp only [step, finish_db]
    cases h : delay st.db st.now ids d with
    | error e => exact DelsRel.refl rowRel_mono _
    | ok o => exact (delay_mono h).1
  | dlSweep mx v fw =>
    simp only [step, finish_db]
    cases h : dlSweep st.db st.now mx v fw with
    | error e => exact DelsRel.refl rowRel_mono _
    | ok o => exact (dlSweep_mono h).1
  | seekTime s t => simp [Op.delsMonotone] at hop
  | seekSnap s n => simp [Op.delsMonotone] at hop
  | snapshot n s l i =>
    simp only [step, finish_db]
    cases h : createSnapshot st.db st.now n s l i with
    | error e => exact DelsRel.refl rowRel_mono _
    | ok o => exact delsMono_of_eq (createSnapshot_dels h)
  | deleteSnap n =>
    simp only [step, finish_db]
    cases h : deleteSnapshot st.db n with
    | error e => exact DelsRel.refl rowRel_mono _
    | ok o => exact delsMono_of_eq (deleteSnapshot_dels h)
  | setDelay n d =>
    simp only [step, finish_db]
    cases h : setDelay st.db n d with
    | error e => exact DelsRel.refl rowRel_mono _
    | ok o => exact delsMono_of_eq (setDelay_dels h)
  | expireSubs mx v =>
    simp only [step, finish_db]
    cases h : expireSubs st.db st.now mx v with
    | error e => exact DelsRel.refl rowRel_mono _
    | ok o => exact delsMono_of_eq (expireSubs_dels h)
  | pruneCompletedDeliveries a mx v => simp [Op.delsMonotone] at hop
  | pruneExpiredDeliveries mx v => simp [Op.delsMonotone] at hop
  | pruneCompletedMessages a mx v =>
    simp only [step, finish_db]
    cases h : pruneCompletedMessages st.db st.now a mx v with
    | error e => exact DelsRel.refl rowRel_mono _
    | ok o => exact delsMono_of_eq (pruneCompletedMessages_dels h)
  | pruneDeletedSubDeliveries a mx v => simp [Op.delsMonotone] at hop
  | pruneDeletedSubs a mx v =>
    simp only [step, finish_db]
    cases h : pruneDeletedSubs st.db st.now a mx v with
    | error e => exact DelsRel.refl rowRel_mono _
    | ok o => exact delsMono_of_eq (pruneDeletedSubs_dels h)
  | pruneDeletedTopics a mx v =>
    simp only [step, finish_db]
    cases h : pruneDeletedTopics st.db st.now a mx v with
    | error e => exact DelsRel.refl rowRel_mono _
    | ok o => exact delsMono_of_eq (pruneDeletedTopics_dels h)

/-! ### what a pull hands out -/

theorem lookupAll_spec {α} (f : Id → Option α) : ∀ (ids : List Id) (rows : List α),
    lookupAll f ids = some rows → ∀ r ∈ rows, ∃ i ∈ ids, f i = some r := by
  intro ids
  induction ids with
  | nil => intro rows h; unfold lookupAll at h; injection h with h; subst h; intro r hr; cases hr
  | cons i t ih =>
    intro rows h
    unfold lookupAll at h
    split at h
    · rename_i a rest ha hrest
      injection h with h; subst h
      intro r hr
      rcases List.mem_cons.mp hr with rfl | hr
      · exact ⟨i, List.mem_cons_self, ha⟩
      · obtain ⟨j, hj, hf⟩ := ih rest hrest r hr
        exact ⟨j, List.mem_cons_of_mem _ hj, hf⟩
    · cases h

/-- every delivered pair of the loop's result was already delivered or is one of the candidates -/
theorem pullLoop_delivered (s : Sub) (now : Time) (maxBytes : Nat) (strict : Bool) (obs : PullObs) :
    ∀ (cands : List Delivery) (i : Nat) (acc acc' : PullAcc),
      pullLoop s now maxBytes strict obs i cands acc = .ok acc' →
      ∀ x ∈ acc'.delivered, x ∈ acc.delivered ∨ x.1 ∈ cands := by
  intro cands
  induction cands with
  | nil =>
    intro i acc acc' h
    unfold pullLoop at h
    injection h with h; subst h
    intro x hx; exact Or.inl hx
  | cons d r ih =>
    intro i acc acc' h x hx
    unfold pullLoop at h
    split at h
    · cases h
    · split at h
      · rcases ih _ _ _ h x hx with h1 | h1
        · exact Or.inl h1
        · exact Or.inr (List.mem_cons_of_mem _ h1)
      · split at h
        · split at h
          · cases h
          · have := ih _ _ _ h x hx
            rcases this with h1 | h1
            · exact Or.inl h1
            · exact Or.inr (List.mem_cons_of_mem _ h1)
        · split at h
          · cases h
          · have := ih _ _ _ h x hx
            rcases this with h1 | h1
            · simp only [List.mem_append, List.mem_singleton] at h1
              rcases h1 with h1 | h1
              · exact Or.inl h1
              · right; rw [h1]; exact List.mem_cons_self
            · exact Or.inr (List.mem_cons_of_mem _ h1)

theorem refreshExpiry_dels (db : Db) (s : Sub) (now : Time) : (refreshExpiry db s now).dels = db.dels := rfl

/-- **pull soundness**: every element of a pull response names (by primary key) a delivery row that
    was eligible on the pulled subscription before the pull — it belongs to that subscription, is
    not completed, not past its retention, due, and (ordered subscriptions) not blocked — and the
    reported attempt is its attempt counter plus one. -/
theorem pull_delivered_spec {db : Db} {now : Time} {sub : String} {max maxBytes : Nat} {strict : Bool}
    {wait : Int} {obs : PullObs} {o : TxOut PullRes} {now' : Time}
    (h : pull db now sub max maxBytes strict wait obs = .ok (o, now')) :
    ∃ s, db.liveSubByName sub = some s ∧
      ∀ x ∈ o.val.delivered, ∃ c, db.delById x.1 = some c ∧
        (refreshExpiry db s now).eligible s now c = true ∧ x.2 = c.attempts + 1 := by
  unfold pull at h
  split at h
  · cases h
  · rename_i s hs
    refine ⟨s, hs, ?_⟩
    simp only at h
    split at h
    · cases h
    · rename_i cands hc
      split at h
      · cases h
      · rename_i hok
        split at h
        · injection h with h; injection h with h1 _; subst h1
          intro x hx; cases hx
        · split at h
          · cases h
          · rename_i o' hd
            injection h with h; injection h with h1 _; subst h1
            unfold pullDeliver at hd
            split at hd
            · cases hd
            · rename_i acc hl
              injection hd with hd; subst hd
              intro x hx
              simp only [List.mem_map] at hx
              obtain ⟨⟨c, δ⟩, hmem, rfl⟩ := hx
              have hcand := pullLoop_delivered _ _ _ _ _ _ _ _ _ hl (c, δ) hmem
              rcases hcand with h0 | hcand
              · cases h0
              · simp only at hcand
                obtain ⟨i, _, hi⟩ := lookupAll_spec _ _ _ hc c hcand
                have hid : i = c.id := by
                  have := List.find?_some hi
                  have h2 : c.id = i := by simpa using this
                  exact h2.symm
                subst hid
                refine ⟨c, hi, ?_, rfl⟩
                simp only [Bool.not_eq_true, Bool.not_eq_false'] at hok
                unfold candsOk at hok
                simp only [Bool.and_eq_true] at hok
                exact List.all_eq_true.mp hok.1.1.2 c hcand

end Mmmbbb
