/-
Print/parse round trip of the filter language at token level:
`parseTokens (printCond c) = some c` for every AST `c`.
-/
import Mmmbbb.Model.FilterSyntax
namespace Mmmbbb.Filter

mutual
  def Cond.size : Cond → Nat
    | .mk t .none => t.size + 1
    | .mk t (.ands ts) => t.size + ts.size + 1
    | .mk t (.ors ts) => t.size + ts.size + 1
  def Terms.size : Terms → Nat
    | .one t => t.size + 1
    | .cons t ts => t.size + ts.size + 1
  def Term.size : Term → Nat
    | .basic _ _ => 1
    | .sub _ c => c.size + 1
end

theorem parseName_nameTok (n : String) (r : List Tok) : parseName (nameTok n :: r) = some (n, r) := by
  unfold nameTok; split <;> rfl

theorem parseBasic_print (b : Basic) (r : List Tok) : parseBasic (printBasic b ++ r) = some (b, r) := by
  cases b with
  | has n =>
    simp [printBasic, parseBasic, parseHas, expect, lit, Tok.val, parseName_nameTok, Option.orElse]
  | value n op v =>
    cases op <;>
    simp [printBasic, parseBasic, parseHas, parseValue, parseOp, parseStr, expect, lit, Tok.val,
      parseName_nameTok, Option.orElse] <;> decide
  | hasPrefix n v =>
    simp [printBasic, parseBasic, parseHas, parseValue, parsePrefix, parseStr, expect, lit, Tok.val,
      parseName_nameTok, Option.orElse]

/-- the continuation must not start with something the enclosing repetition would swallow -/
def noKw (kw : String) : List Tok → Prop
  | [] => True
  | t :: _ => lit kw t = false

def endsCond (r : List Tok) : Prop := noKw "AND" r ∧ noKw "OR" r

theorem parseNeg_basic (b : Basic) (r : List Tok) : parseNeg (printBasic b ++ r) = (false, printBasic b ++ r) := by
  cases b with
  | has n => simp [printBasic, parseNeg, lit, Tok.val]
  | value n op v => cases op <;> simp [printBasic, parseNeg, lit, Tok.val]
  | hasPrefix n v => simp [printBasic, parseNeg, lit, Tok.val]

theorem parseBasic_paren (r : List Tok) : parseBasic (Tok.sym '(' :: r) = none := by
  simp [parseBasic, parseHas, parseValue, parsePrefix, expect, lit, Tok.val, Option.orElse]

theorem parseTerm_basic (fuel : Nat) (neg : Bool) (b : Basic) (r : List Tok) :
    parseTerm (fuel+1) (printTerm (.basic neg b) ++ r) = some (.basic neg b, r) := by
  cases neg with
  | false =>
    simp only [printTerm, parseTerm, Bool.false_eq_true, if_false, List.nil_append, parseNeg_basic,
      parseBasic_print]
  | true =>
    simp only [printTerm, parseTerm, if_true, List.cons_append, List.nil_append]
    have : parseNeg (Tok.ident "NOT" :: (printBasic b ++ r)) = (true, printBasic b ++ r) := by
      simp [parseNeg, lit, Tok.val]
    simp only [this, parseBasic_print]

theorem parseNeg_paren (r : List Tok) : parseNeg (Tok.sym '(' :: r) = (false, Tok.sym '(' :: r) := by
  simp [parseNeg, lit, Tok.val]

theorem endsCond_paren (r : List Tok) : endsCond (Tok.sym ')' :: r) := by
  constructor <;> simp [noKw, lit, Tok.val] <;> decide

theorem endsCond_nil : endsCond [] := ⟨trivial, trivial⟩

/-- what may follow a repetition `(kw Term)+`: anything not starting with kw -/
theorem noKw_of_endsCond {kw : String} (h : kw = "AND" ∨ kw = "OR") {r : List Tok} (he : endsCond r) :
    noKw kw r := by
  rcases h with rfl | rfl
  · exact he.1
  · exact he.2

mutual
  theorem parseCond_print : ∀ (c : Cond) (fuel : Nat) (r : List Tok), c.size ≤ fuel → endsCond r →
      parseCond fuel (printCond c ++ r) = some (c, r)
    | .mk t .none, fuel, r, hf, he => by
      cases fuel with
      | zero => simp [Cond.size] at hf
      | succ fuel =>
        have ht := parseTerm_print t fuel r (by simp [Cond.size] at hf; omega)
        simp only [printCond, parseCond, ht, Option.bind_eq_bind, Option.bind_some]
        cases r with
        | nil => rfl
        | cons k r' =>
          have h1 : lit "AND" k = false := he.1
          have h2 : lit "OR" k = false := he.2
          simp [h1, h2]
    | .mk t (.ands ts), fuel, r, hf, he => by
      cases fuel with
      | zero => simp [Cond.size] at hf
      | succ fuel =>
        have hsz : t.size ≤ fuel ∧ ts.size ≤ fuel := by simp [Cond.size] at hf; omega
        cases ts with
        | one u =>
          have ht := parseTerm_print t fuel (printTerms "AND" (.one u) ++ r) hsz.1
          have hm := parseMore_print "AND" (Or.inl rfl) (.one u) fuel r hsz.2 he
          simp only [printCond, List.append_assoc, parseCond, ht, Option.bind_eq_bind, Option.bind_some]
          simp only [printTerms, List.tail_cons, List.cons_append, List.append_assoc] at hm ⊢
          simp [lit, Tok.val, hm]
        | cons u us =>
          have ht := parseTerm_print t fuel (printTerms "AND" (.cons u us) ++ r) hsz.1
          have hm := parseMore_print "AND" (Or.inl rfl) (.cons u us) fuel r hsz.2 he
          simp only [printCond, List.append_assoc, parseCond, ht, Option.bind_eq_bind, Option.bind_some]
          simp only [printTerms, List.tail_cons, List.cons_append, List.append_assoc] at hm ⊢
          simp [lit, Tok.val, hm]
    | .mk t (.ors ts), fuel, r, hf, he => by
      cases fuel with
      | zero => simp [Cond.size] at hf
      | succ fuel =>
        have hsz : t.size ≤ fuel ∧ ts.size ≤ fuel := by simp [Cond.size] at hf; omega
        cases ts with
        | one u =>
          have ht := parseTerm_print t fuel (printTerms "OR" (.one u) ++ r) hsz.1
          have hm := parseMore_print "OR" (Or.inr rfl) (.one u) fuel r hsz.2 he
          simp only [printCond, List.append_assoc, parseCond, ht, Option.bind_eq_bind, Option.bind_some]
          simp only [printTerms, List.tail_cons, List.cons_append, List.append_assoc] at hm ⊢
          have hne : ("OR" == "AND") = false := by decide
          simp [lit, Tok.val, hm, hne]
        | cons u us =>
          have ht := parseTerm_print t fuel (printTerms "OR" (.cons u us) ++ r) hsz.1
          have hm := parseMore_print "OR" (Or.inr rfl) (.cons u us) fuel r hsz.2 he
          simp only [printCond, List.append_assoc, parseCond, ht, Option.bind_eq_bind, Option.bind_some]
          simp only [printTerms, List.tail_cons, List.cons_append, List.append_assoc] at hm ⊢
          have hne : ("OR" == "AND") = false := by decide
          simp [lit, Tok.val, hm, hne]
  /-- `printTerms kw ts` is `kw t1 kw t2 …`; after the first kw has been consumed, parseMore reads the rest -/
  theorem parseMore_print (kw : String) (hkw : kw = "AND" ∨ kw = "OR") : ∀ (ts : Terms) (fuel : Nat) (r : List Tok),
      ts.size ≤ fuel → endsCond r →
      parseMore kw fuel ((printTerms kw ts).tail ++ r) = some (ts, r)
    | .one t, fuel, r, hf, he => by
      cases fuel with
      | zero => simp [Terms.size] at hf
      | succ fuel =>
        have ht := parseTerm_print t fuel r (by simp [Terms.size] at hf; omega)
        simp only [printTerms, List.tail_cons, parseMore, ht, Option.bind_eq_bind, Option.bind_some]
        cases r with
        | nil => rfl
        | cons k r' =>
          have := noKw_of_endsCond hkw he
          simp only [noKw] at this
          simp [this]
    | .cons t ts, fuel, r, hf, he => by
      cases fuel with
      | zero => simp [Terms.size] at hf
      | succ fuel =>
        have hsz : t.size ≤ fuel ∧ ts.size ≤ fuel := by simp [Terms.size] at hf; omega
        have ht := parseTerm_print t fuel (printTerms kw ts ++ r) hsz.1
        have hm := parseMore_print kw hkw ts fuel r hsz.2 he
        simp only [printTerms, List.tail_cons, List.append_assoc, parseMore, ht, Option.bind_eq_bind, Option.bind_some]
        cases ts with
        | one u =>
          simp only [printTerms, List.tail_cons, List.cons_append, List.append_assoc] at hm ⊢
          simp [lit, Tok.val, hm]
        | cons u us =>
          simp only [printTerms, List.tail_cons, List.cons_append, List.append_assoc] at hm ⊢
          simp [lit, Tok.val, hm]
  theorem parseTerm_print : ∀ (t : Term) (fuel : Nat) (r : List Tok), t.size ≤ fuel →
      parseTerm fuel (printTerm t ++ r) = some (t, r)
    | .basic neg b, fuel, r, hf => by
      cases fuel with
      | zero => simp [Term.size] at hf
      | succ fuel => exact parseTerm_basic fuel neg b r
    | .sub neg c, fuel, r, hf => by
      cases fuel with
      | zero => simp [Term.size] at hf
      | succ fuel =>
        have hc := parseCond_print c fuel (Tok.sym ')' :: r) (by simp [Term.size] at hf; omega) (endsCond_paren r)
        cases neg with
        | false =>
          simp only [printTerm, Bool.false_eq_true, if_false, List.nil_append, List.cons_append,
            List.append_assoc, parseTerm, parseNeg_paren, parseBasic_paren]
          simp [expect, lit, Tok.val, hc]
        | true =>
          simp only [printTerm, if_true, List.cons_append, List.nil_append,
            List.append_assoc, parseTerm]
          have : parseNeg (Tok.ident "NOT" :: Tok.sym '(' :: (printCond c ++ Tok.sym ')' :: r)) =
              (true, Tok.sym '(' :: (printCond c ++ Tok.sym ')' :: r)) := by
            simp [parseNeg, lit, Tok.val]
          simp only [this, parseBasic_paren]
          simp [expect, lit, Tok.val, hc]
end


/-! ### fuel: the AST size is bounded by the number of printed tokens -/

theorem printBasic_len (b : Basic) : 3 ≤ (printBasic b).length := by
  cases b with
  | has n => simp [printBasic]
  | value n op v => cases op <;> simp [printBasic]
  | hasPrefix n v => simp [printBasic]

mutual
  theorem Cond.size_le : ∀ c : Cond, c.size + 1 ≤ (printCond c).length
    | .mk t .none => by
      have := Term.size_le t
      simp only [Cond.size, printCond]; omega
    | .mk t (.ands ts) => by
      have h1 := Term.size_le t
      have h2 := Terms.size_le "AND" ts
      simp only [Cond.size, printCond, List.length_append]; omega
    | .mk t (.ors ts) => by
      have h1 := Term.size_le t
      have h2 := Terms.size_le "OR" ts
      simp only [Cond.size, printCond, List.length_append]; omega
  theorem Terms.size_le (kw : String) : ∀ ts : Terms, ts.size ≤ (printTerms kw ts).length
    | .one t => by
      have := Term.size_le t
      simp only [Terms.size, printTerms, List.length_cons]; omega
    | .cons t ts => by
      have h1 := Term.size_le t
      have h2 := Terms.size_le kw ts
      simp only [Terms.size, printTerms, List.length_cons, List.length_append]; omega
  theorem Term.size_le : ∀ t : Term, t.size + 2 ≤ (printTerm t).length
    | .basic neg b => by
      have := printBasic_len b
      simp only [Term.size, printTerm, List.length_append]; omega
    | .sub neg c => by
      have := Cond.size_le c
      simp only [Term.size, printTerm, List.length_append, List.length_cons, List.length_nil]; omega
end

/-- token-level round trip with the fuel `parseTokens` actually uses -/
theorem parseTokens_print (c : Cond) : parseTokens (printCond c) = some c := by
  have hsz := Cond.size_le c
  have := parseCond_print c (2 * (printCond c).length + 2) [] (by omega) endsCond_nil
  simp only [List.append_nil] at this
  simp [parseTokens, this]

end Mmmbbb.Filter
