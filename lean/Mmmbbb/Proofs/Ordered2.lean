/-
The ordering invariant without a clock assumption, and its preservation by every step that satisfies
`Ord2.stepOk2` (Model/Ordered2.lean).  Rows are ordered by their position in the table ("made
earlier"), publish times are only non-decreasing along it.  Property theorem: `Properties/C05.lean`.
-/
import Mmmbbb.Proofs.Ordered
import Mmmbbb.Model.Ordered2
namespace Mmmbbb.Ord2
open Mmmbbb.Ord

/-! ### "made earlier": position in the table -/

/-- `e` stands before `d` in `l` -/
def Bef (l : List Delivery) (e d : Delivery) : Prop := List.Sublist [e, d] l

theorem Bef.mem_left {l : List Delivery} {e d : Delivery} (h : Bef l e d) : e ∈ l := h.subset (by simp)
theorem Bef.mem_right {l : List Delivery} {e d : Delivery} (h : Bef l e d) : d ∈ l := h.subset (by simp)

theorem bef_cons_iff {x : Delivery} {t : List Delivery} {a b : Delivery} :
    Bef (x :: t) a b ↔ Bef t a b ∨ (x = a ∧ b ∈ t) := by
  unfold Bef
  constructor
  · intro h
    cases h with
    | cons _ h => exact Or.inl h
    | cons_cons _ h => exact Or.inr ⟨rfl, by simpa using h.subset⟩
  · rintro (h | ⟨rfl, hb⟩)
    · exact List.Sublist.cons _ h
    · exact List.Sublist.cons_cons _ (by simpa using hb)

theorem bef_total {l : List Delivery} {a b : Delivery} (ha : a ∈ l) (hb : b ∈ l) (hne : a ≠ b) :
    Bef l a b ∨ Bef l b a := by
  induction l with
  | nil => cases ha
  | cons x t ih =>
    simp only [List.mem_cons] at ha hb
    rcases ha with rfl | ha
    · rcases hb with rfl | hb
      · exact absurd rfl hne
      · exact Or.inl (bef_cons_iff.mpr (Or.inr ⟨rfl, hb⟩))
    · rcases hb with rfl | hb
      · exact Or.inr (bef_cons_iff.mpr (Or.inr ⟨rfl, ha⟩))
      · rcases ih ha hb with h | h
        · exact Or.inl (bef_cons_iff.mpr (Or.inl h))
        · exact Or.inr (bef_cons_iff.mpr (Or.inl h))

theorem bef_asymm {l : List Delivery} {a b : Delivery} (hn : l.Nodup) (h1 : Bef l a b) (h2 : Bef l b a) : False := by
  induction l with
  | nil => cases h1.mem_left
  | cons x t ih =>
    have hx : x ∉ t := (List.nodup_cons.mp hn).1
    have ht : t.Nodup := (List.nodup_cons.mp hn).2
    rcases bef_cons_iff.mp h1 with h1 | ⟨rfl, hb⟩
    · rcases bef_cons_iff.mp h2 with h2 | ⟨rfl, _⟩
      · exact ih ht h1 h2
      · exact hx h1.mem_right
    · rcases bef_cons_iff.mp h2 with h2 | ⟨rfl, _⟩
      · exact hx h2.mem_right
      · exact hx hb

theorem bef_irrefl {l : List Delivery} {a : Delivery} (hn : l.Nodup) (h : Bef l a a) : False := bef_asymm hn h h

theorem bef_append_iff {T : List Delivery} {r a b : Delivery} (hr : r ∉ T) :
    Bef (T ++ [r]) a b ↔ Bef T a b ∨ (a ∈ T ∧ b = r) := by
  induction T with
  | nil =>
    simp only [List.nil_append]
    constructor
    · intro h
      have := List.Sublist.length_le h
      simp at this
    · rintro (h | ⟨h, _⟩)
      · have := List.Sublist.length_le h
        simp at this
      · cases h
  | cons x t ih =>
    have hr' : r ∉ t := fun h => hr (List.mem_cons_of_mem _ h)
    have hrx : r ≠ x := fun h => hr (by rw [h]; exact List.mem_cons_self)
    rw [List.cons_append, bef_cons_iff, ih hr', bef_cons_iff]
    constructor
    · rintro ((h | ⟨h1, h2⟩) | ⟨rfl, hb⟩)
      · exact Or.inl (Or.inl h)
      · exact Or.inr ⟨List.mem_cons_of_mem _ h1, h2⟩
      · rcases List.mem_append.mp hb with hb | hb
        · exact Or.inl (Or.inr ⟨rfl, hb⟩)
        · exact Or.inr ⟨List.mem_cons_self, by simpa using hb⟩
    · rintro ((h | ⟨rfl, hb⟩) | ⟨h1, rfl⟩)
      · exact Or.inl (Or.inl h)
      · exact Or.inr ⟨rfl, List.mem_append_left _ hb⟩
      · rcases List.mem_cons.mp h1 with rfl | h1
        · exact Or.inr ⟨rfl, by simp⟩
        · exact Or.inl (Or.inr ⟨h1, rfl⟩)

/-- position by position related lists have the same "before" -/
theorem all2_bef_back {R : Delivery → Delivery → Prop} {l u : List Delivery} (h2 : All2 R l u) :
    ∀ {a' b' : Delivery}, Bef u a' b' → ∃ a b, Bef l a b ∧ R a a' ∧ R b b' := by
  induction h2 with
  | nil => intro a' b' h; cases h.mem_left
  | cons hab hr ih =>
    intro a' b' h
    rcases bef_cons_iff.mp h with h | ⟨rfl, hb⟩
    · obtain ⟨a, b, h1, h2, h3⟩ := ih h
      exact ⟨a, b, bef_cons_iff.mpr (Or.inl h1), h2, h3⟩
    · obtain ⟨b, hb1, hb2⟩ := forall2_mem_right hr b' hb
      exact ⟨_, b, bef_cons_iff.mpr (Or.inr ⟨rfl, hb1⟩), hab, hb2⟩

theorem all2_bef_fwd {R : Delivery → Delivery → Prop} {l u : List Delivery} (h2 : All2 R l u) :
    ∀ {a b : Delivery}, Bef l a b → ∃ a' b', Bef u a' b' ∧ R a a' ∧ R b b' := by
  induction h2 with
  | nil => intro a b h; cases h.mem_left
  | cons hab hr ih =>
    intro a b h
    rcases bef_cons_iff.mp h with h | ⟨rfl, hb⟩
    · obtain ⟨a', b', h1, h2, h3⟩ := ih h
      exact ⟨a', b', bef_cons_iff.mpr (Or.inl h1), h2, h3⟩
    · obtain ⟨b', hb1, hb2⟩ := forall2_mem_left hr b hb
      exact ⟨_, b', bef_cons_iff.mpr (Or.inr ⟨rfl, hb1⟩), hab, hb2⟩

/-- `befB` sees every "before" -/
theorem befB_of_bef {l : List Delivery} {a b : Delivery} (h : Bef l a b) : befB l a.id b.id = true := by
  induction l with
  | nil => cases h.mem_left
  | cons x t ih =>
    unfold befB
    by_cases hx : x.id = a.id
    · have : (x :: t).dropWhile (fun d => d.id != a.id) = x :: t := by
        rw [List.dropWhile_cons]; simp [hx]
      rw [this]
      simp only [List.any_eq_true, beq_iff_eq]
      rcases bef_cons_iff.mp h with h | ⟨_, hb⟩
      · exact ⟨b, h.mem_right, rfl⟩
      · exact ⟨b, hb, rfl⟩
    · have : (x :: t).dropWhile (fun d => d.id != a.id) = t.dropWhile (fun d => d.id != a.id) := by
        rw [List.dropWhile_cons]; simp [hx]
      rw [this]
      rcases bef_cons_iff.mp h with h | ⟨rfl, _⟩
      · have := ih h
        unfold befB at this
        exact this
      · exact absurd rfl hx

theorem nodup_of_map_id : ∀ {l : List Delivery}, (l.map (·.id)).Nodup → l.Nodup
  | [], _ => List.nodup_nil
  | x :: t, h => by
    simp only [List.map_cons, List.nodup_cons, List.mem_map, not_exists, not_and] at h
    refine List.nodup_cons.mpr ⟨fun hx => h.1 x hx rfl, nodup_of_map_id h.2⟩

/-! ### the invariant -/

theorem hasSuccIn_iff (T : List Delivery) (d : Delivery) :
    hasSuccIn T d = true ↔ ∃ x ∈ T, x.notBefore = some d.id := by
  unfold hasSuccIn
  simp

/-- The invariant.  `sorted`: publish times do not decrease along the table.  `nbShape`: a link names
    the row of the same subscription and key made last before its own row.  `tieSucc`: of two
    same-key rows that share a publish time (and were inside their retention then) the earlier one has
    somebody waiting on it.  `link`: a keyed row of a live ordered subscription made after an
    outstanding same-key row has a link.  `touched`: a row that has ever been handed out or completed
    has no outstanding same-key row made before it. -/
structure Inv2 (db : Db) (now : Time) : Prop where
  uniq : (db.dels.map (·.id)).Nodup
  past : ∀ d ∈ db.dels, d.publishedAt ≤ now
  sorted : ∀ e d, Bef db.dels e d → e.publishedAt ≤ d.publishedAt
  ttl : ∀ d ∈ db.dels, ∀ s ∈ db.subs, s.live = true → s.id = d.subId → d.expiresAt = d.publishedAt + s.messageTtl
  nbShape : ∀ d ∈ db.dels, ∀ i, d.notBefore = some i → ∃ p, p.id = i ∧ Bef db.dels p d ∧ p.subId = d.subId ∧
    keyOf db p = keyOf db d ∧
    ∀ f, Bef db.dels p f → Bef db.dels f d → f.subId = d.subId → keyOf db f = keyOf db d → False
  tieSucc : ∀ e f, Bef db.dels e f → liveOrd db f.subId = true → e.subId = f.subId → keyOf db e = keyOf db f →
    keyOf db f ≠ none → e.publishedAt = f.publishedAt → f.publishedAt < e.expiresAt → hasSuccIn db.dels e = true
  link : ∀ e d, Bef db.dels e d → liveOrd db d.subId = true → e.subId = d.subId → keyOf db e = keyOf db d →
    keyOf db d ≠ none → e.isOpen now = true → d.notBefore.isSome = true
  touched : ∀ e q, Bef db.dels e q → liveOrd db q.subId = true → e.subId = q.subId → keyOf db e = keyOf db q →
    keyOf db q ≠ none → (0 < q.attempts ∨ q.completedAt.isSome = true) → e.isOpen now = false

theorem Inv2.nodup {db : Db} {now : Time} (h : Inv2 db now) : db.dels.Nodup := nodup_of_map_id h.uniq

theorem Inv2.init (now : Time) : Inv2 {} now := by
  refine ⟨List.nodup_nil, ?_, ?_, ?_, ?_, ?_, ?_, ?_⟩
  · intro d hd; cases hd
  · intro e d h; cases h.mem_left
  · intro d hd; cases hd
  · intro d hd; cases hd
  · intro e f h; cases h.mem_left
  · intro e d h; cases h.mem_left
  · intro e q h; cases h.mem_left

/-- done-ness is closed downwards along a key: nothing made before (or equal to) a same-key row that
    is not outstanding is outstanding -/
theorem Inv2.closed {db : Db} {now : Time} (h : Inv2 db now) {q e : Delivery} (hq : q ∈ db.dels)
    (hord : liveOrd db q.subId = true) (hsub : e.subId = q.subId) (hkey : keyOf db e = keyOf db q)
    (hk : keyOf db q ≠ none) (hle : e = q ∨ Bef db.dels e q) (hdone : q.isOpen now = false) :
    e.isOpen now = false := by
  rcases hle with rfl | hbef
  · exact hdone
  · rcases (isOpen_false_iff now q).mp hdone with hc | hx
    · exact h.touched e q hbef hord hsub hkey hk (Or.inr hc)
    · obtain ⟨s, hs, hsid, hlive, _⟩ := (liveOrd_iff db q.subId).mp hord
      have h1 := h.ttl q hq s hs hlive hsid
      have h2 := h.ttl e hbef.mem_left s hs hlive (hsid.trans hsub.symm)
      have h3 := h.sorted e q hbef
      refine (isOpen_false_iff now e).mpr (Or.inr ?_)
      unfold Time at *
      omega

/-- the link target of a row made after `e` (same subscription and key) is `e` or made after `e` -/
theorem Inv2.target_after {db : Db} {now : Time} (h : Inv2 db now) {e d : Delivery} (hbef : Bef db.dels e d)
    (hsub : e.subId = d.subId) (hkey : keyOf db e = keyOf db d) {i : Id} (hnb : d.notBefore = some i) :
    ∃ p ∈ db.dels, p.id = i ∧ p.subId = d.subId ∧ keyOf db p = keyOf db d ∧ (e = p ∨ Bef db.dels e p) := by
  obtain ⟨p, hpi, hpd, hps, hpk, hnone⟩ := h.nbShape d hbef.mem_right i hnb
  refine ⟨p, hpd.mem_left, hpi, hps, hpk, ?_⟩
  by_cases hep : e = p
  · exact Or.inl hep
  · rcases bef_total hbef.mem_left hpd.mem_left hep with h1 | h1
    · exact Or.inr h1
    · exact absurd (hnone e h1 hbef hsub hkey) id

/-- **the ordering property of a state**: on a live ordered subscription a keyed row is not eligible
    while a same-key row published earlier is outstanding -/
theorem Inv2.ordered {db : Db} {now : Time} (h : Inv2 db now) (s : Sub) (hs : s ∈ db.subs) (hlive : s.live = true)
    (hordered : s.ordered = true) (d e : Delivery) (hd : d ∈ db.dels) (he : e ∈ db.dels)
    (hds : d.subId = s.id) (hes : e.subId = s.id) (hkey : keyOf db d = keyOf db e) (hk : keyOf db d ≠ none)
    (hlt : e.publishedAt < d.publishedAt) (hopen : e.isOpen now = true) :
    db.eligible s now d = false := by
  have hord : liveOrd db d.subId = true := (liveOrd_iff db d.subId).mpr ⟨s, hs, hds.symm, hlive, hordered⟩
  have hne : e ≠ d := by intro heq; rw [heq] at hlt; exact Int.lt_irrefl _ hlt
  have hbef : Bef db.dels e d := by
    rcases bef_total he hd hne with h1 | h1
    · exact h1
    · have := h.sorted d e h1
      unfold Time at *; omega
  have hsub : e.subId = d.subId := hes.trans hds.symm
  have hsome := h.link e d hbef hord hsub hkey.symm hk hopen
  cases hnb : d.notBefore with
  | none => rw [hnb] at hsome; cases hsome
  | some i =>
    obtain ⟨q, hq, hqi, hqs, hqk, hafter⟩ := h.target_after hbef hsub hkey.symm hnb
    cases hel : db.eligible s now d with
    | false => rfl
    | true =>
      exfalso
      unfold Db.eligible at hel
      simp only [Bool.and_eq_true, hordered, Bool.not_true, Bool.false_or] at hel
      have hpd := hel.2
      unfold Db.predDone at hpd
      rw [hnb] at hpd
      simp only at hpd
      rw [← hqi] at hpd
      cases hq3 : db.delById q.id with
      | none => rw [hq3] at hpd; cases hpd
      | some q3 =>
        rw [hq3] at hpd
        have hq3m : q3 ∈ db.dels := List.mem_of_find?_eq_some hq3
        have hq3id : q3.id = q.id := by
          have := List.find?_some hq3
          simpa using this
        have heq : q3 = q := eq_of_nodup_ids h.uniq hq3m hq hq3id
        subst heq
        have hdone : q3.isOpen now = false := by
          refine (isOpen_false_iff now q3).mpr ?_
          simpa using hpd
        have := h.closed hq (by rw [hqs]; exact hord) (hsub.trans hqs.symm) (hkey.symm.trans hqk.symm)
          (by rw [hqk]; exact hk) hafter hdone
        rw [this] at hopen; cases hopen

/-! ### the update phase of a growing step -/

/-- the update phase: in-place updates, the new clock, the new subscriptions and messages tables -/
theorem Inv2.update {db : Db} {now : Time} (h : Inv2 db now) {db' : Db} {now' : Time} {u : List Delivery}
    (hnow : now ≤ now') (hsubs : subsOk db db' = true) (hu : ∀ d' ∈ u, d' ∈ db'.dels)
    (hf : All2 (RowUpd db now db') db.dels u) :
    Inv2 { db' with dels := u } now' := by
  have back := fun d' (hd' : d' ∈ u) => forall2_mem_right hf d' hd'
  have ordb : ∀ d' ∈ u, ∀ d, RowUpd db now db' d d' → liveOrd db' d'.subId = true → liveOrd db d.subId = true := by
    intro d' hd' d r ho
    have := liveOrd_back hsubs (hu d' hd') ho
    rw [r.sub] at this; exact this
  have huniq : (u.map (·.id)).Nodup := by rw [forall2_ids hf]; exact h.uniq
  have bb : ∀ {a' b' : Delivery}, Bef u a' b' → ∃ a b, Bef db.dels a b ∧ RowUpd db now db' a a' ∧ RowUpd db now db' b b' :=
    fun hb => all2_bef_back hf hb
  -- a related pair of old rows is the pair the new rows came from
  have same_row : ∀ {a c : Delivery} {a' : Delivery}, a ∈ db.dels → c ∈ db.dels → RowUpd db now db' a a' →
      RowUpd db now db' c a' → a = c := by
    intro a c a' ha hc ra rc
    exact eq_of_nodup_ids h.uniq ha hc (by rw [← ra.id, ← rc.id])
  refine ⟨huniq, ?_, ?_, ?_, ?_, ?_, ?_, ?_⟩
  · intro d' hd'
    obtain ⟨d, hd, r⟩ := back d' hd'
    have := h.past d hd
    rw [r.pub]; unfold Time at *; omega
  · intro e' d' hb
    obtain ⟨e, d, hb0, re, rd⟩ := bb hb
    rw [re.pub, rd.pub]; exact h.sorted e d hb0
  · intro d' hd' s' hs' hl hid
    obtain ⟨d, hd, r⟩ := back d' hd'
    obtain ⟨s, hs, a, b, _, e⟩ := subsOk_spec hsubs hs' hl (hu d' hd') hid
    have := h.ttl d hd s hs a (by rw [b, hid, r.sub])
    rw [r.exp, r.pub, this, e]
  · -- nbShape
    intro d' hd' i hnb
    obtain ⟨d, hd, rd⟩ := back d' hd'
    obtain ⟨p, hpi, hpd, hps, hpk, hnone⟩ := h.nbShape d hd i (by rw [← rd.nb]; exact hnb)
    obtain ⟨p', d'', hb', rp, rd''⟩ := all2_bef_fwd hf hpd
    have hdd : d'' = d' := eq_of_nodup_ids huniq hb'.mem_right hd' (by rw [rd''.id, rd.id])
    subst hdd
    refine ⟨p', by rw [rp.id]; exact hpi, hb', by rw [rp.sub, rd.sub]; exact hps, ?_, ?_⟩
    · show keyOf db' p' = keyOf db' d''
      rw [rp.key, rd.key]; exact hpk
    · intro f' h1 h2 hfs hfk
      obtain ⟨a, b, hab, ra, rb⟩ := bb h1
      obtain ⟨b2, c, hbc, rb2, rc⟩ := bb h2
      have e1 : a = p := same_row hab.mem_left hpd.mem_left ra rp
      have e2 : b2 = b := same_row hbc.mem_left hab.mem_right rb2 rb
      have e3 : c = d := same_row hbc.mem_right hd rc rd
      subst e1 e2 e3
      refine hnone b2 hab hbc (by rw [← rb.sub, ← rd.sub]; exact hfs) ?_
      have : keyOf db' f' = keyOf db' d'' := hfk
      rw [rb.key, rd.key] at this; exact this
  · -- tieSucc
    intro e' f' hb ho hsub hkey hk hpub hexp
    obtain ⟨e, f, hb0, re, rf⟩ := bb hb
    have hkey0 : keyOf db' e' = keyOf db' f' := hkey
    have hk0 : keyOf db' f' ≠ none := hk
    have := h.tieSucc e f hb0 (ordb f' hb.mem_right f rf ho) (by rw [← re.sub, ← rf.sub]; exact hsub)
      (by rw [← re.key, ← rf.key]; exact hkey0) (by rw [← rf.key]; exact hk0) (by rw [← re.pub, ← rf.pub]; exact hpub)
      (by rw [← re.exp, ← rf.pub]; exact hexp)
    obtain ⟨x, hx, hxnb⟩ := (hasSuccIn_iff db.dels e).mp this
    obtain ⟨x', hx', rx⟩ := forall2_mem_left hf x hx
    exact (hasSuccIn_iff u e').mpr ⟨x', hx', by rw [rx.nb, hxnb, re.id]⟩
  · -- link
    intro e' d' hb ho hsub hkey hk hopen
    obtain ⟨e, d, hb0, re, rd⟩ := bb hb
    have hkey0 : keyOf db' e' = keyOf db' d' := hkey
    have hk0 : keyOf db' d' ≠ none := hk
    have := h.link e d hb0 (ordb d' hb.mem_right d rd ho) (by rw [← re.sub, ← rd.sub]; exact hsub)
      (by rw [← re.key, ← rd.key]; exact hkey0) (by rw [← rd.key]; exact hk0) (open_back re hnow hopen)
    rw [rd.nb]; exact this
  · -- touched
    intro e' q' hb ho hsub hkey hk htouched
    obtain ⟨e, q, hb0, re, rq⟩ := bb hb
    have hkey' : keyOf db' e' = keyOf db' q' := hkey
    have hk' : keyOf db' q' ≠ none := hk
    have hordq := ordb q' hb.mem_right q rq ho
    have hsub0 : e.subId = q.subId := by rw [← re.sub, ← rq.sub]; exact hsub
    have hkey0 : keyOf db e = keyOf db q := by rw [← re.key, ← rq.key]; exact hkey'
    have hk0 : keyOf db q ≠ none := by rw [← rq.key]; exact hk'
    apply closed_fwd re hnow
    by_cases hold : 0 < q.attempts ∨ q.completedAt.isSome = true
    · exact h.touched e q hb0 hordq hsub0 hkey0 hk0 hold
    · have hq0 : q.attempts = 0 := by
        cases hqa : q.attempts with
        | zero => rfl
        | succ n => exact absurd (Or.inl (by omega)) hold
      have hqc : q.completedAt.isNone = true := by
        cases hc : q.completedAt with
        | none => rfl
        | some t => exact absurd (Or.inr (by simp [hc])) hold
      have hch : q.attempts < q'.attempts ∨ (q.completedAt.isNone = true ∧ q'.completedAt.isSome = true) := by
        rcases htouched with ht | ht
        · left; omega
        · right; exact ⟨hqc, ht⟩
      rcases rq.just hch hordq hk0 with hj | hj
      · omega
      · cases hopen : e.isOpen now with
        | false => rfl
        | true =>
          exfalso
          have hsome := h.link e q hb0 hordq hsub0 hkey0 hk0 hopen
          cases hnb : q.notBefore with
          | none => rw [hnb] at hsome; cases hsome
          | some i =>
            obtain ⟨q2, hq2, hq2i, hq2s, hq2k, hafter⟩ := h.target_after hb0 hsub0 hkey0 hnb
            unfold Db.predDone at hj
            rw [hnb] at hj
            simp only at hj
            rw [← hq2i] at hj
            cases hq3 : db.delById q2.id with
            | none => rw [hq3] at hj; cases hj
            | some q3 =>
              rw [hq3] at hj
              have hq3m : q3 ∈ db.dels := List.mem_of_find?_eq_some hq3
              have hq3id : q3.id = q2.id := by
                have := List.find?_some hq3
                simpa using this
              have heq : q3 = q2 := eq_of_nodup_ids h.uniq hq3m hq2 hq3id
              subst heq
              have hdone : q3.isOpen now = false := (isOpen_false_iff now q3).mpr (by simpa using hj)
              have := h.closed hq2 (by rw [hq2s]; exact hordq) (hsub0.trans hq2s.symm) (hkey0.trans hq2k.symm)
                (by rw [hq2k]; exact hk0) hafter hdone
              rw [this] at hopen; cases hopen

/-! ### appending one row -/

/-- among the rows of a duplicate-free list that satisfy `P` there is a last one -/
theorem exists_last (P : Delivery → Prop) : ∀ {l : List Delivery}, l.Nodup → (∃ f ∈ l, P f) →
    ∃ L ∈ l, P L ∧ ∀ g, Bef l L g → ¬ P g
  | [], _, ⟨f, hf, _⟩ => by cases hf
  | x :: t, hn, ⟨f, hf, hPf⟩ => by
    have hx : x ∉ t := (List.nodup_cons.mp hn).1
    have ht : t.Nodup := (List.nodup_cons.mp hn).2
    by_cases hex : ∃ g ∈ t, P g
    · obtain ⟨L, hL, hPL, hlast⟩ := exists_last P ht hex
      refine ⟨L, List.mem_cons_of_mem _ hL, hPL, ?_⟩
      intro g hg
      rcases bef_cons_iff.mp hg with hg | ⟨rfl, _⟩
      · exact hlast g hg
      · exact absurd hL hx
    · have hfx : f = x := by
        rcases List.mem_cons.mp hf with h | h
        · exact h
        · exact absurd ⟨f, h, hPf⟩ hex
      subst hfx
      refine ⟨f, List.mem_cons_self, hPf, ?_⟩
      intro g hg hPg
      have hgt : g ∈ t := by
        rcases bef_cons_iff.mp hg with hg | ⟨_, hg⟩
        · exact hg.mem_right
        · exact hg
      exact hex ⟨g, hgt, hPg⟩

structure RowNew2 (db' : Db) (now' : Time) (T : List Delivery) (r : Delivery) : Prop where
  ge : ∀ e ∈ T, e.publishedAt ≤ r.publishedAt
  hi : r.publishedAt ≤ now'
  ttl : ∀ s ∈ db'.subs, s.live = true → s.id = r.subId → r.expiresAt = r.publishedAt + s.messageTtl
  comp : r.completedAt = none
  att : r.attempts = 0
  fresh : ∀ e ∈ T, e.id ≠ r.id
  link : liveOrd db' r.subId = true → keyOf db' r ≠ none →
    (r.notBefore = none ∧ cands db' T r = []) ∨
    (∃ q ∈ cands db' T r, r.notBefore = some q.id ∧ ∀ e ∈ cands db' T r, e.publishedAt ≤ q.publishedAt ∧
      (e.publishedAt = q.publishedAt → hasSuccIn T q = true → hasSuccIn T e = true))
  plain : ¬ (liveOrd db' r.subId = true ∧ keyOf db' r ≠ none) → r.notBefore = none

theorem rowNew2_of_ok {db' : Db} {now' : Time} {T : List Delivery} {r : Delivery}
    (h : rowNewOk2 db' now' T r = true) : RowNew2 db' now' T r := by
  unfold rowNewOk2 at h
  simp only [Bool.and_eq_true, decide_eq_true_eq, List.all_eq_true, Bool.or_eq_true, Bool.not_eq_true',
    beq_iff_eq, bne_iff_ne, ne_eq, Option.isNone_iff_eq_none] at h
  obtain ⟨⟨⟨⟨⟨⟨h1, h2⟩, h3⟩, h4⟩, h5⟩, h6⟩, h7⟩ := h
  refine ⟨h1, h2, ?_, h4, h5, h6, ?_, ?_⟩
  · intro s hs hl hid
    rcases h3 s hs with h | h
    · simp [hl, hid] at h
    · exact h
  · intro ho hk
    have hcond : liveOrd db' r.subId = true ∧ (keyOf db' r).isSome = true := by
      refine ⟨ho, ?_⟩
      cases hkk : keyOf db' r with
      | none => exact absurd hkk hk
      | some _ => rfl
    rw [if_pos hcond] at h7
    cases hnb : r.notBefore with
    | none =>
      rw [hnb] at h7
      left; exact ⟨rfl, List.isEmpty_iff.mp h7⟩
    | some p =>
      rw [hnb] at h7
      right
      simp only [List.any_eq_true, Bool.and_eq_true, beq_iff_eq, List.all_eq_true, decide_eq_true_eq,
        Bool.or_eq_true, Bool.not_eq_true', beq_eq_false_iff_ne, ne_eq] at h7
      obtain ⟨q, hq, hqp, hall⟩ := h7
      refine ⟨q, hq, by rw [hqp], ?_⟩
      intro e he
      refine ⟨(hall e he).1, ?_⟩
      intro heq hsq
      rcases (hall e he).2 with (h | h) | h
      · exact absurd heq h
      · rw [hsq] at h; cases h
      · exact h
  · intro hn
    have hcond : ¬ (liveOrd db' r.subId = true ∧ (keyOf db' r).isSome = true) := by
      intro hc
      apply hn
      refine ⟨hc.1, ?_⟩
      intro hk; rw [hk] at hc; cases hc.2
    rw [if_neg hcond] at h7
    exact Option.isNone_iff_eq_none.mp h7

theorem hasSuccIn_append (T : List Delivery) (r e : Delivery) (h : hasSuccIn T e = true) :
    hasSuccIn (T ++ [r]) e = true := by
  obtain ⟨x, hx, hnb⟩ := (hasSuccIn_iff T e).mp h
  exact (hasSuccIn_iff _ e).mpr ⟨x, List.mem_append_left _ hx, hnb⟩

theorem Inv2.append {db' : Db} {now' : Time} {T : List Delivery} {r : Delivery}
    (h : Inv2 { db' with dels := T } now') (hr : RowNew2 db' now' T r) :
    Inv2 { db' with dels := T ++ [r] } now' := by
  have hrT : r ∉ T := fun hm => hr.fresh r hm rfl
  have hnodup : T.Nodup := h.nodup
  have bef_iff : ∀ {a b : Delivery}, Bef (T ++ [r]) a b ↔ Bef T a b ∨ (a ∈ T ∧ b = r) := bef_append_iff hrT
  have hmem : ∀ x, x ∈ T ++ [r] → x ∈ T ∨ x = r := by
    intro x hx; simpa using hx
  -- the row the new link names is the same-key row made last
  have chosen : liveOrd db' r.subId = true → keyOf db' r ≠ none → ∀ q ∈ cands db' T r,
      (∀ e ∈ cands db' T r, e.publishedAt ≤ q.publishedAt ∧
        (e.publishedAt = q.publishedAt → hasSuccIn T q = true → hasSuccIn T e = true)) →
      ∀ g, Bef T q g → ¬ (g.subId = r.subId ∧ keyOf db' g = keyOf db' r) := by
    intro ho hk q hq hall
    have hq' := mem_cands.mp hq
    obtain ⟨L, hL, hPL, hlast⟩ := exists_last (fun g => g.subId = r.subId ∧ keyOf db' g = keyOf db' r) hnodup
      ⟨q, hq'.1, hq'.2.1, hq'.2.2.2⟩
    by_cases hqL : q = L
    · subst hqL; exact hlast
    · exfalso
      have hbef : Bef T q L := by
        rcases bef_total hq'.1 hL hqL with h1 | h1
        · exact h1
        · exact absurd ⟨hq'.2.1, hq'.2.2.2⟩ (hlast q h1)
      obtain ⟨s, hs, hsid, hlive, _⟩ := (liveOrd_iff db' r.subId).mp ho
      have hsq := h.sorted q L hbef
      have tq := h.ttl q hq'.1 s hs hlive (hsid.trans hq'.2.1.symm)
      have tL := h.ttl L hL s hs hlive (hsid.trans hPL.1.symm)
      have hLc : L ∈ cands db' T r := mem_cands.mpr ⟨hL, hPL.1, by
        have := hq'.2.2.1; unfold Time at *; omega, hPL.2⟩
      have hLq := (hall L hLc).1
      have hpub : L.publishedAt = q.publishedAt := by unfold Time at *; omega
      have hsq2 : hasSuccIn T q = true :=
        h.tieSucc q L hbef (by rw [hPL.1]; exact ho) (hq'.2.1.trans hPL.1.symm) (hq'.2.2.2.trans hPL.2.symm)
          (by show keyOf db' L ≠ none; rw [hPL.2]; exact hk) hpub.symm (by
            have := hq'.2.2.1; have := hr.ge q hq'.1; unfold Time at *; omega)
      have hsL := (hall L hLc).2 hpub hsq2
      obtain ⟨x, hx, hxnb⟩ := (hasSuccIn_iff T L).mp hsL
      obtain ⟨p, hpi, hpx, hps, hpk, _⟩ := h.nbShape x hx L.id hxnb
      have hpL : p = L := eq_of_nodup_ids h.uniq hpx.mem_left hL hpi
      subst hpL
      exact hlast x hpx ⟨hps.symm.trans hPL.1, (show keyOf db' x = keyOf db' r from hpk.symm.trans hPL.2)⟩
  refine ⟨?_, ?_, ?_, ?_, ?_, ?_, ?_, ?_⟩
  · show ((T ++ [r]).map (·.id)).Nodup
    rw [List.map_append, List.nodup_append]
    refine ⟨h.uniq, by simp, ?_⟩
    intro a ha b hb
    simp only [List.map_cons, List.map_nil, List.mem_singleton] at hb
    simp only [List.mem_map] at ha
    obtain ⟨e, he, rfl⟩ := ha
    rw [hb]; exact hr.fresh e he
  · intro d hd
    rcases hmem d hd with hdT | hdr
    · exact h.past d hdT
    · rw [hdr]; exact hr.hi
  · intro e d hb
    rcases bef_iff.mp hb with hb | ⟨he, rfl⟩
    · exact h.sorted e d hb
    · exact hr.ge e he
  · intro d hd s hs hl hid
    rcases hmem d hd with hdT | hdr
    · exact h.ttl d hdT s hs hl hid
    · rw [hdr] at hid ⊢; exact hr.ttl s hs hl hid
  · -- nbShape
    intro d hd i hnb
    rcases hmem d hd with hdT | hdr
    · obtain ⟨p, hpi, hpd, hps, hpk, hnone⟩ := h.nbShape d hdT i hnb
      refine ⟨p, hpi, bef_iff.mpr (Or.inl hpd), hps, hpk, ?_⟩
      intro f h1 h2 hfs hfk
      rcases bef_iff.mp h2 with h2 | ⟨_, hdr⟩
      · rcases bef_iff.mp h1 with h1 | ⟨_, hfr⟩
        · exact hnone f h1 h2 hfs hfk
        · rw [hfr] at h2; exact hrT h2.mem_left
      · rw [hdr] at hdT; exact hrT hdT
    · subst hdr
      by_cases hK : liveOrd db' d.subId = true ∧ keyOf db' d ≠ none
      · rcases hr.link hK.1 hK.2 with ⟨hnone, _⟩ | ⟨q, hq, hqnb, hall⟩
        · rw [hnone] at hnb; cases hnb
        · have hq' := mem_cands.mp hq
          have hi : q.id = i := by rw [hqnb] at hnb; injection hnb
          refine ⟨q, hi, bef_iff.mpr (Or.inr ⟨hq'.1, rfl⟩), hq'.2.1, hq'.2.2.2, ?_⟩
          intro f h1 h2 hfs hfk
          have hfT : f ∈ T := by
            rcases bef_iff.mp h2 with h2 | ⟨hf, _⟩
            · exact absurd h2.mem_right hrT
            · exact hf
          rcases bef_iff.mp h1 with h1 | ⟨_, hfr⟩
          · exact chosen hK.1 hK.2 q hq hall f h1 ⟨hfs, hfk⟩
          · rw [hfr] at hfT; exact hrT hfT
      · rw [hr.plain hK] at hnb; cases hnb
  · -- tieSucc
    intro e f hb ho hsub hkey hk hpub hexp
    rcases bef_iff.mp hb with hb | ⟨heT, rfl⟩
    · exact hasSuccIn_append T r e (h.tieSucc e f hb ho hsub hkey hk hpub hexp)
    · have hkey' : keyOf db' e = keyOf db' f := hkey
      have hk' : keyOf db' f ≠ none := hk
      have hec : e ∈ cands db' T f := mem_cands.mpr ⟨heT, hsub, hexp, hkey'⟩
      rcases hr.link ho hk' with ⟨_, hnil⟩ | ⟨q, hq, hqnb, hall⟩
      · rw [hnil] at hec; cases hec
      · have hq' := mem_cands.mp hq
        by_cases heq : e = q
        · subst heq
          exact (hasSuccIn_iff _ e).mpr ⟨f, by simp, hqnb⟩
        · apply hasSuccIn_append
          have hbef : Bef T e q := by
            rcases bef_total heT hq'.1 heq with h1 | h1
            · exact h1
            · exact absurd ⟨hsub, hkey'⟩ (chosen ho hk' q hq hall e h1)
          have h1 := h.sorted e q hbef
          have h2 := hr.ge q hq'.1
          refine h.tieSucc e q hbef (by rw [hq'.2.1]; exact ho) (hsub.trans hq'.2.1.symm) (hkey'.trans hq'.2.2.2.symm)
            (by show keyOf db' q ≠ none; rw [hq'.2.2.2]; exact hk') (by unfold Time at *; omega) (by unfold Time at *; omega)
  · -- link
    intro e d hb ho hsub hkey hk hopen
    rcases bef_iff.mp hb with hb | ⟨heT, rfl⟩
    · exact h.link e d hb ho hsub hkey hk hopen
    · have hopen' := (isOpen_true_iff now' e).mp hopen
      have hec : e ∈ cands db' T d := mem_cands.mpr ⟨heT, hsub, by
        have := hr.hi; have := hopen'.2; unfold Time at *; omega, hkey⟩
      rcases hr.link ho hk with ⟨_, hnil⟩ | ⟨q, _, hqnb, _⟩
      · rw [hnil] at hec; cases hec
      · rw [hqnb]; rfl
  · -- touched
    intro e q hb ho hsub hkey hk htouched
    rcases bef_iff.mp hb with hb | ⟨_, rfl⟩
    · exact h.touched e q hb ho hsub hkey hk htouched
    · exfalso
      rcases htouched with ht | ht
      · rw [hr.att] at ht; exact Nat.lt_irrefl 0 ht
      · rw [hr.comp] at ht; cases ht

theorem Inv2.appends {db' : Db} {now' : Time} : ∀ (news T : List Delivery),
    Inv2 { db' with dels := T } now' → appendOk2 db' now' T news = true →
    Inv2 { db' with dels := T ++ news } now'
  | [], T, h, _ => by simpa using h
  | r :: rest, T, h, hok => by
    simp only [appendOk2, Bool.and_eq_true] at hok
    have := Inv2.appends rest (T ++ [r]) (h.append (rowNew2_of_ok hok.1)) hok.2
    simpa using this

theorem Inv2.grow {db : Db} {now : Time} (h : Inv2 db now) {db' : Db} {now' : Time} (hnow : now ≤ now')
    (hsubs : subsOk db db' = true) (hg : growOk2 db now db' now' = true) : Inv2 db' now' := by
  unfold growOk2 at hg
  simp only [Bool.and_eq_true] at hg
  have hu := h.update (u := db'.dels.take db.dels.length) hnow hsubs (fun d' hd' => List.mem_of_mem_take hd')
    (forall2_of_rowsUpdOk hg.1)
  have := Inv2.appends _ _ hu hg.2
  rw [List.take_append_drop] at this
  exact this

/-! ### a shrinking step -/

theorem bef_shrink_back {l : List Delivery} {p : Delivery → Bool} {g : Delivery → Delivery} {a' b' : Delivery}
    (h : Bef ((l.filter p).map g) a' b') : ∃ a b, Bef l a b ∧ p a = true ∧ p b = true ∧ a' = g a ∧ b' = g b := by
  unfold Bef at h
  obtain ⟨l', hl', hmap⟩ := List.sublist_map_iff.mp h
  match l', hl', hmap with
  | [a, b], hl', hmap =>
    simp only [List.map_cons, List.map_nil, List.cons.injEq, and_true] at hmap
    have ha : a ∈ l.filter p := hl'.subset (by simp)
    have hb : b ∈ l.filter p := hl'.subset (by simp)
    exact ⟨a, b, hl'.trans List.filter_sublist, (List.mem_filter.mp ha).2, (List.mem_filter.mp hb).2, hmap.1, hmap.2⟩
  | [], _, hmap => simp at hmap
  | [_], _, hmap => simp at hmap
  | _ :: _ :: _ :: _, _, hmap => simp at hmap

theorem bef_shrink_fwd {l : List Delivery} {p : Delivery → Bool} (g : Delivery → Delivery) {a b : Delivery}
    (h : Bef l a b) (ha : p a = true) (hb : p b = true) : Bef ((l.filter p).map g) (g a) (g b) := by
  unfold Bef at h ⊢
  have h1 := (List.Sublist.filter p h).map g
  simpa [List.filter_cons, ha, hb] using h1

theorem clr_nb_some {R : List Id} {d : Delivery} {i : Id} (h : (clr R d).notBefore = some i) :
    d.notBefore = some i ∧ R.contains i = false := by
  unfold clr at h
  cases hnb : d.notBefore with
  | none => rw [hnb] at h; simp [hnb] at h
  | some p =>
    rw [hnb] at h
    simp only at h
    by_cases hc : R.contains p = true
    · rw [if_pos hc] at h; simp at h
    · rw [if_neg hc] at h
      rw [hnb] at h
      injection h with h
      subst h
      exact ⟨rfl, by simpa using hc⟩

theorem Inv2.shrink {db : Db} {now : Time} (h : Inv2 db now) {db' : Db} {now' : Time} (hnow : now ≤ now')
    (hsubs : subsOk db db' = true) (hs : shrinkOk2 db now db' = true) : Inv2 db' now' := by
  unfold shrinkOk2 shrinkOk tieClosed at hs
  simp only [Bool.and_eq_true, beq_iff_eq, List.all_eq_true, Bool.or_eq_true, Bool.not_eq_true',
    Option.isNone_iff_eq_none] at hs
  obtain ⟨⟨⟨hl, hrm⟩, hkeys⟩, htie⟩ := hs
  generalize hR : removedIds db.dels db'.dels = R at hl hrm hkeys htie
  let keep : Delivery → Bool := fun d => !R.contains d.id
  have hl' : db'.dels = (db.dels.filter keep).map (clr R) := hl
  have keep_iff : ∀ d : Delivery, keep d = true ↔ R.contains d.id = false := by
    intro d; simp [keep]
  have back : ∀ d' ∈ db'.dels, ∃ d ∈ db.dels, R.contains d.id = false ∧ d' = clr R d := by
    intro d' hd'
    rw [hl] at hd'
    simp only [List.mem_map, List.mem_filter, Bool.not_eq_true'] at hd'
    obtain ⟨d, ⟨hd, hk⟩, rfl⟩ := hd'
    exact ⟨d, hd, hk, rfl⟩
  have fwd : ∀ d ∈ db.dels, R.contains d.id = false → clr R d ∈ db'.dels := by
    intro d hd hk
    rw [hl]
    simp only [List.mem_map, List.mem_filter, Bool.not_eq_true']
    exact ⟨d, ⟨hd, hk⟩, rfl⟩
  have bb : ∀ {a' b' : Delivery}, Bef db'.dels a' b' → ∃ a b, Bef db.dels a b ∧ R.contains a.id = false ∧
      R.contains b.id = false ∧ a' = clr R a ∧ b' = clr R b := by
    intro a' b' hb
    rw [hl'] at hb
    obtain ⟨a, b, h1, h2, h3, h4, h5⟩ := bef_shrink_back hb
    exact ⟨a, b, h1, (keep_iff a).mp h2, (keep_iff b).mp h3, h4, h5⟩
  have bf : ∀ {a b : Delivery}, Bef db.dels a b → R.contains a.id = false → R.contains b.id = false →
      Bef db'.dels (clr R a) (clr R b) := by
    intro a b hb ha hbk
    rw [hl']
    exact bef_shrink_fwd (clr R) hb ((keep_iff a).mpr ha) ((keep_iff b).mpr hbk)
  have key : ∀ d ∈ db.dels, R.contains d.id = false → keyOf db' (clr R d) = keyOf db d := by
    intro d hd hk
    rw [clr_key]
    rcases hkeys d hd with h1 | h1
    · rw [hk] at h1; cases h1
    · exact h1
  have ordb : ∀ d ∈ db.dels, R.contains d.id = false → liveOrd db' d.subId = true → liveOrd db d.subId = true := by
    intro d hd hk ho
    have := liveOrd_back hsubs (fwd d hd hk) (by rw [clr_sub]; exact ho)
    rw [clr_sub] at this; exact this
  have opn : ∀ d : Delivery, d.isOpen now' = true → d.isOpen now = true := by
    intro d hd
    rw [isOpen_true_iff] at hd ⊢
    refine ⟨hd.1, ?_⟩
    have := hd.2; unfold Time at *; omega
  have clr_inj : ∀ {a c : Delivery}, a ∈ db.dels → c ∈ db.dels → clr R a = clr R c → a = c := by
    intro a c ha hc heq
    exact eq_of_nodup_ids h.uniq ha hc (by rw [← clr_id R a, ← clr_id R c, heq])
  refine ⟨?_, ?_, ?_, ?_, ?_, ?_, ?_, ?_⟩
  · rw [hl, List.map_map]
    have : ((fun x : Delivery => x.id) ∘ clr R) = (fun x => x.id) := by funext d; simp [Function.comp, clr_id]
    rw [this]
    exact List.Nodup.sublist (List.Sublist.map _ List.filter_sublist) h.uniq
  · intro d' hd'
    obtain ⟨d, hd, _, rfl⟩ := back d' hd'
    have := h.past d hd
    rw [clr_pub]; unfold Time at *; omega
  · intro e' d' hb
    obtain ⟨e, d, hb0, _, _, rfl, rfl⟩ := bb hb
    rw [clr_pub, clr_pub]; exact h.sorted e d hb0
  · intro d' hd' s' hs' hlv hid
    obtain ⟨d, hd, hk, rfl⟩ := back d' hd'
    obtain ⟨s, hs, a, b, _, e⟩ := subsOk_spec hsubs hs' hlv hd' hid
    have := h.ttl d hd s hs a (by rw [b, hid, clr_sub])
    rw [clr_exp, clr_pub, this, e]
  · -- nbShape
    intro d' hd' i hnb
    obtain ⟨d, hd, hkd, rfl⟩ := back d' hd'
    obtain ⟨hnb0, hki⟩ := clr_nb_some hnb
    obtain ⟨p, hpi, hpd, hps, hpk, hnone⟩ := h.nbShape d hd i hnb0
    have hkp : R.contains p.id = false := by rw [hpi]; exact hki
    refine ⟨clr R p, by rw [clr_id]; exact hpi, bf hpd hkp hkd, by rw [clr_sub, clr_sub]; exact hps, ?_, ?_⟩
    · rw [key p hpd.mem_left hkp, key d hd hkd]; exact hpk
    · intro f' h1 h2 hfs hfk
      obtain ⟨a, b, hab, _, hkb, ea, eb⟩ := bb h1
      obtain ⟨b2, c, hbc, _, _, eb2, ec⟩ := bb h2
      have e1 : p = a := clr_inj hpd.mem_left hab.mem_left ea
      have e2 : b = b2 := clr_inj hab.mem_right hbc.mem_left (eb.symm.trans eb2)
      have e3 : d = c := clr_inj hd hbc.mem_right ec
      subst e1 e2 e3
      subst eb
      refine hnone b hab hbc (by rw [clr_sub, clr_sub] at hfs; exact hfs) ?_
      rw [key b hab.mem_right hkb, key d hd hkd] at hfk; exact hfk
  · -- tieSucc
    intro e' f' hb ho hsub hkey hk hpub hexp
    obtain ⟨e, f, hb0, hke, hkf, rfl, rfl⟩ := bb hb
    rw [clr_sub] at ho
    rw [clr_sub, clr_sub] at hsub
    rw [key e hb0.mem_left hke, key f hb0.mem_right hkf] at hkey
    rw [key f hb0.mem_right hkf] at hk
    rw [clr_pub, clr_pub] at hpub
    rw [clr_pub, clr_exp] at hexp
    have hof := ordb f hb0.mem_right hkf ho
    have := h.tieSucc e f hb0 hof hsub hkey hk hpub hexp
    obtain ⟨x, hx, hxnb⟩ := (hasSuccIn_iff db.dels e).mp this
    cases hkx : R.contains x.id with
    | false =>
      refine (hasSuccIn_iff db'.dels (clr R e)).mpr ⟨clr R x, fwd x hx hkx, ?_⟩
      rw [clr_id]; exact clr_nb_keep R x e.id hxnb hke
    | true =>
      exfalso
      obtain ⟨p, hpi, hpx, hps, hpk, hnone⟩ := h.nbShape x hx e.id hxnb
      have hpe : p = e := eq_of_nodup_ids h.uniq hpx.mem_left hb0.mem_left hpi
      subst hpe
      have hfx : f ≠ x := by intro heq; rw [heq, hkx] at hkf; cases hkf
      rcases bef_total hb0.mem_right hx hfx with h1 | h1
      · exact hnone f hb0 h1 (hsub.symm.trans hps) (hkey.symm.trans hpk)
      · have s1 := h.sorted p x hpx
        have s2 := h.sorted x f h1
        have hxpub : p.publishedAt = x.publishedAt := by unfold Time at *; omega
        rcases htie x hx with ((h2 | h2) | h2) | h2
        · rw [hkx] at h2; cases h2
        · rw [← hps, hsub, hof] at h2; cases h2
        · rw [← hpk, hkey] at h2; exact hk h2
        · rcases h2 p hpx.mem_left with h3 | h3
          · simp only [Bool.and_eq_false_iff, beq_eq_false_iff_ne, ne_eq] at h3
            rcases h3 with ((h3 | h3) | h3) | h3
            · exact h3 hps
            · exact h3 hpk
            · exact h3 hxpub
            · rw [befB_of_bef hpx] at h3; cases h3
          · rw [hke] at h3; cases h3
  · -- link
    intro e' d' hb ho hsub hkey hk hopen
    obtain ⟨e, d, hb0, hke, hkd, rfl, rfl⟩ := bb hb
    rw [clr_sub] at ho
    rw [clr_sub, clr_sub] at hsub
    rw [key e hb0.mem_left hke, key d hb0.mem_right hkd] at hkey
    rw [key d hb0.mem_right hkd] at hk
    rw [clr_open] at hopen
    have hod := ordb d hb0.mem_right hkd ho
    have hsome := h.link e d hb0 hod hsub hkey hk (opn e hopen)
    cases hnb : d.notBefore with
    | none => rw [hnb] at hsome; cases hsome
    | some i =>
      obtain ⟨q, hq, hqi, hqs, hqk, hafter⟩ := h.target_after hb0 hsub hkey hnb
      have hqkeep : R.contains q.id = false := by
        cases hc : R.contains q.id with
        | false => rfl
        | true =>
          exfalso
          rcases hrm q hq with (h1 | h1) | h1
          · rw [hc] at h1; cases h1
          · rw [hqs, hod] at h1; cases h1
          · have := h.closed hq (by rw [hqs]; exact hod) (hsub.trans hqs.symm) (hkey.trans hqk.symm)
              (by rw [hqk]; exact hk) hafter h1
            rw [opn e hopen] at this; cases this
      rw [clr_nb_keep R d i hnb (by rw [← hqi]; exact hqkeep)]; rfl
  · -- touched
    intro e' q' hb ho hsub hkey hk htouched
    obtain ⟨e, q, hb0, hke, hkq, rfl, rfl⟩ := bb hb
    rw [clr_sub] at ho
    rw [clr_sub, clr_sub] at hsub
    rw [key e hb0.mem_left hke, key q hb0.mem_right hkq] at hkey
    rw [key q hb0.mem_right hkq] at hk
    rw [clr_att, clr_comp] at htouched
    rw [clr_open]
    have := h.touched e q hb0 (ordb q hb0.mem_right hkq ho) hsub hkey hk htouched
    cases h' : e.isOpen now' with
    | false => rfl
    | true => rw [opn e h'] at this; cases this

/-- **preservation**: a step that satisfies `stepOk2` keeps the invariant — no clock assumption -/
theorem Inv2.step {db : Db} {now : Time} (h : Inv2 db now) {db' : Db} {now' : Time}
    (hok : stepOk2 db now db' now' = true) : Inv2 db' now' := by
  unfold stepOk2 at hok
  simp only [Bool.and_eq_true, decide_eq_true_eq, Bool.or_eq_true] at hok
  obtain ⟨⟨hnow, hsubs⟩, hg | hs⟩ := hok
  · exact h.grow hnow hsubs hg
  · exact h.shrink hnow hsubs hs

end Mmmbbb.Ord2
