/-
Invariant of the wake-up protocol (Model/Notify.lean) for the configuration the source has:
`wakeContinue = true`, `registerFirst = true`.
-/
import Mmmbbb.Model.Notify
namespace Mmmbbb.Notify

@[simp] theorem setW_open (σ : Sys) (i w) : (setW σ i w).open = σ.open := rfl
@[simp] theorem setW_avail (σ : Sys) (i w) : (setW σ i w).avail = σ.avail := rfl
@[simp] theorem setW_writer (σ : Sys) (i w) : (setW σ i w).writer = σ.writer := rfl
@[simp] theorem setW_next (σ : Sys) (i w) : (setW σ i w).next = σ.next := rfl
@[simp] theorem setX_open (σ : Sys) (j x) : (setX σ j x).open = σ.open := rfl
@[simp] theorem setX_avail (σ : Sys) (j x) : (setX σ j x).avail = σ.avail := rfl
@[simp] theorem setX_waiter (σ : Sys) (j x) : (setX σ j x).waiter = σ.waiter := rfl
@[simp] theorem setX_next (σ : Sys) (j x) : (setX σ j x).next = σ.next := rfl
@[simp] theorem setOpen_open (σ : Sys) (op) : (setOpen σ op).open = op := rfl
@[simp] theorem setOpen_avail (σ : Sys) (op) : (setOpen σ op).avail = σ.avail := rfl
@[simp] theorem setOpen_writer (σ : Sys) (op) : (setOpen σ op).writer = σ.writer := rfl
@[simp] theorem setOpen_waiter (σ : Sys) (op) : (setOpen σ op).waiter = σ.waiter := rfl
@[simp] theorem setOpen_next (σ : Sys) (op) : (setOpen σ op).next = σ.next := rfl
@[simp] theorem setAvail_open (σ : Sys) (a) : (setAvail σ a).open = σ.open := rfl
@[simp] theorem setAvail_avail (σ : Sys) (a) : (setAvail σ a).avail = a := rfl
@[simp] theorem setAvail_writer (σ : Sys) (a) : (setAvail σ a).writer = σ.writer := rfl
@[simp] theorem setAvail_waiter (σ : Sys) (a) : (setAvail σ a).waiter = σ.waiter := rfl
@[simp] theorem setAvail_next (σ : Sys) (a) : (setAvail σ a).next = σ.next := rfl
@[simp] theorem setW_ents (σ : Sys) (i w) : (setW σ i w).ents = σ.ents := rfl
@[simp] theorem setX_ents (σ : Sys) (j x) : (setX σ j x).ents = σ.ents := rfl
@[simp] theorem setOpen_ents (σ : Sys) (op) : (setOpen σ op).ents = σ.ents := rfl
@[simp] theorem setAvail_ents (σ : Sys) (a) : (setAvail σ a).ents = σ.ents := rfl
@[simp] theorem setEnts_open (σ : Sys) (e) : (setEnts σ e).open = σ.open := rfl
@[simp] theorem setEnts_avail (σ : Sys) (e) : (setEnts σ e).avail = σ.avail := rfl
@[simp] theorem setEnts_writer (σ : Sys) (e) : (setEnts σ e).writer = σ.writer := rfl
@[simp] theorem setEnts_waiter (σ : Sys) (e) : (setEnts σ e).waiter = σ.waiter := rfl
@[simp] theorem setEnts_next (σ : Sys) (e) : (setEnts σ e).next = σ.next := rfl
@[simp] theorem setEnts_ents (σ : Sys) (e) : (setEnts σ e).ents = e := rfl

/-- a waiter that will not look at the database again unless somebody closes its channel -/
def StuckProne (op : List (Nat × Nat)) (w : Waiter) : Prop :=
  ((w.pc = 3 ∧ w.found = false) ∨ w.pc = 4) ∧ chanOpen op w.chan = true

structure Inv (σ : Sys) : Prop where
  fresh_open : ∀ p ∈ σ.open, p.1 < σ.next
  fresh_chan : ∀ i c, (σ.waiter i).chan = some c → c < σ.next
  uniq : ∀ i i' c, (σ.waiter i).chan = some c → (σ.waiter i').chan = some c → i = i'
  chan_sub : ∀ i c, (σ.waiter i).chan = some c → ∀ p ∈ σ.open, p.1 = c → p.2 = (σ.waiter i).sub
  /-- a registered channel's subscription has a waiter set -/
  ent_open : ∀ p ∈ σ.open, p.2 ∈ σ.ents
  /-- every writer wakes every subscription on which it makes something deliverable -/
  covers : ∀ j s, 0 < addsFor (σ.writer j).adds s → s ∈ (σ.writer j).wakes
  /-- **no lost wake-up** -/
  nolost : ∀ i, StuckProne σ.open (σ.waiter i) → 0 < σ.avail (σ.waiter i).sub →
    ∃ j, (σ.writer j).pc = 1 ∧ (σ.waiter i).sub ∈ (σ.writer j).wakes

theorem chanOpen_iff (op : List (Nat × Nat)) (c : Nat) : chanOpen op (some c) = true ↔ ∃ p ∈ op, p.1 = c := by
  simp [chanOpen]

theorem chanOpen_mono {op op' : List (Nat × Nat)} (h : ∀ p ∈ op', p ∈ op) (c : Option Nat) :
    chanOpen op' c = true → chanOpen op c = true := by
  cases c with
  | none => simp [chanOpen]
  | some c =>
    rw [chanOpen_iff, chanOpen_iff]
    rintro ⟨p, hp, rfl⟩
    exact ⟨p, h p hp, rfl⟩

theorem StuckProne.mono {op op' : List (Nat × Nat)} (h : ∀ p ∈ op', p ∈ op) {w : Waiter} :
    StuckProne op' w → StuckProne op w := fun ⟨a, b⟩ => ⟨a, chanOpen_mono h _ b⟩

theorem mem_cancel {op : List (Nat × Nat)} {c : Option Nat} {p : Nat × Nat} (h : p ∈ cancel op c) : p ∈ op := by
  cases c with
  | none => exact h
  | some c => exact (List.mem_filter.mp h).1

/-- with `continue`, WakePublishListeners removes exactly the channels of the listed subscriptions -/
theorem wakeAll_spec (op : List (Nat × Nat)) (ents subs : List Nat) (hents : ∀ p ∈ op, p.2 ∈ ents) :
    (∀ p, p ∈ (wakeAll true op ents subs).1 ↔ p ∈ op ∧ p.2 ∉ subs) ∧
    (∀ p ∈ (wakeAll true op ents subs).1, p.2 ∈ (wakeAll true op ents subs).2) := by
  induction subs generalizing op ents with
  | nil => exact ⟨fun p => by simp [wakeAll], fun p hp => hents p hp⟩
  | cons s rest ih =>
    unfold wakeAll
    split
    · have h' : ∀ p ∈ op.filter (fun p => p.2 != s), p.2 ∈ ents.filter (fun e => e != s) := by
        intro p hp
        have := List.mem_filter.mp hp
        exact List.mem_filter.mpr ⟨hents p this.1, this.2⟩
      obtain ⟨i1, i2⟩ := ih _ _ h'
      refine ⟨?_, i2⟩
      intro p
      rw [i1]
      simp only [List.mem_filter, bne_iff_ne, ne_eq, List.mem_cons, not_or]
      constructor
      · rintro ⟨⟨h1, h2⟩, h3⟩; exact ⟨h1, h2, h3⟩
      · rintro ⟨h1, h2, h3⟩; exact ⟨⟨h1, h2⟩, h3⟩
    · rename_i hne
      simp only [if_true]
      obtain ⟨i1, i2⟩ := ih op ents hents
      refine ⟨?_, i2⟩
      intro p
      rw [i1]
      simp only [List.mem_cons, not_or]
      constructor
      · rintro ⟨h1, h3⟩
        refine ⟨h1, ?_, h3⟩
        intro he
        exact hne (he ▸ hents p h1)
      · rintro ⟨h1, _, h3⟩; exact ⟨h1, h3⟩

/-! ### primitives preserve the invariant -/

theorem Inv.setW {σ : Sys} (h : Inv σ) (i0 : Nat) (w' : Waiter)
    (hsub : w'.sub = (σ.waiter i0).sub) (hchan : w'.chan = (σ.waiter i0).chan)
    (hst : StuckProne σ.open w' → StuckProne σ.open (σ.waiter i0) ∨ σ.avail w'.sub = 0) :
    Inv (Notify.setW σ i0 w') := by
  have hw : ∀ i, (Notify.setW σ i0 w').waiter i = if i = i0 then w' else σ.waiter i := fun i => rfl
  have hch : ∀ i, ((Notify.setW σ i0 w').waiter i).chan = (σ.waiter i).chan := by
    intro i; rw [hw]; split
    · rename_i e; rw [e, hchan]
    · rfl
  have hsb : ∀ i, ((Notify.setW σ i0 w').waiter i).sub = (σ.waiter i).sub := by
    intro i; rw [hw]; split
    · rename_i e; rw [e, hsub]
    · rfl
  refine ⟨h.fresh_open, ?_, ?_, ?_, h.ent_open, h.covers, ?_⟩
  · intro i c hc; rw [hch] at hc; exact h.fresh_chan i c hc
  · intro i i' c h1 h2; rw [hch] at h1 h2; exact h.uniq i i' c h1 h2
  · intro i c hc p hp hpc; rw [hch] at hc; rw [hsb]; exact h.chan_sub i c hc p hp hpc
  · intro i hs ha
    rw [hsb] at ha ⊢
    show ∃ j, (σ.writer j).pc = 1 ∧ (σ.waiter i).sub ∈ (σ.writer j).wakes
    by_cases e : i = i0
    · subst e
      have hs' : StuckProne σ.open w' := by
        have h0 := hs; rw [hw] at h0; simpa using h0
      rcases hst hs' with h1 | h0
      · exact h.nolost i h1 ha
      · rw [hsub] at h0; change 0 < σ.avail (σ.waiter i).sub at ha; omega
    · have hs' : StuckProne σ.open (σ.waiter i) := by
        have h0 := hs; rw [hw] at h0; simpa [e] using h0
      exact h.nolost i hs' ha

theorem Inv.setOpen {σ : Sys} (h : Inv σ) (op' : List (Nat × Nat)) (hsub : ∀ p ∈ op', p ∈ σ.open) :
    Inv (Notify.setOpen σ op') := by
  refine ⟨fun p hp => h.fresh_open p (hsub p hp), h.fresh_chan, h.uniq, ?_, fun p hp => h.ent_open p (hsub p hp), h.covers, ?_⟩
  · intro i c hc p hp hpc; exact h.chan_sub i c hc p (hsub p hp) hpc
  · intro i hs ha; exact h.nolost i (hs.mono hsub) ha

theorem Inv.setAvail_le {σ : Sys} (h : Inv σ) (a' : Nat → Nat) (hle : ∀ s, a' s ≤ σ.avail s) :
    Inv (Notify.setAvail σ a') := by
  refine ⟨h.fresh_open, h.fresh_chan, h.uniq, h.chan_sub, h.ent_open, h.covers, ?_⟩
  intro i hs ha
  have : 0 < σ.avail (σ.waiter i).sub := Nat.lt_of_lt_of_le ha (hle _)
  exact h.nolost i hs this

theorem Inv.register_setpc {σ : Sys} (h : Inv σ) (i0 : Nat) :
    Inv (Notify.setW (register σ i0) i0 { (register σ i0).waiter i0 with pc := 2 }) := by
  -- describe the new state explicitly
  have hw : ∀ i, ((Notify.setW (register σ i0) i0 { (register σ i0).waiter i0 with pc := 2 }).waiter i) =
      if i = i0 then { σ.waiter i0 with chan := some σ.next, pc := 2 } else σ.waiter i := by
    intro i
    simp only [Notify.setW, register, upd]
    split <;> simp_all
  have hopen : (Notify.setW (register σ i0) i0 { (register σ i0).waiter i0 with pc := 2 }).open =
      cancel σ.open (σ.waiter i0).chan ++ [(σ.next, (σ.waiter i0).sub)] := rfl
  have hnext : (Notify.setW (register σ i0) i0 { (register σ i0).waiter i0 with pc := 2 }).next = σ.next + 1 := rfl
  have hwr : (Notify.setW (register σ i0) i0 { (register σ i0).waiter i0 with pc := 2 }).writer = σ.writer := rfl
  have hav : (Notify.setW (register σ i0) i0 { (register σ i0).waiter i0 with pc := 2 }).avail = σ.avail := rfl
  have hen : (Notify.setW (register σ i0) i0 { (register σ i0).waiter i0 with pc := 2 }).ents = (σ.waiter i0).sub :: σ.ents := rfl
  generalize Notify.setW (register σ i0) i0 { (register σ i0).waiter i0 with pc := 2 } = τ at hw hopen hnext hwr hav hen
  have hmem : ∀ p ∈ τ.open, p ∈ σ.open ∨ p = (σ.next, (σ.waiter i0).sub) := by
    intro p hp; rw [hopen] at hp
    rcases List.mem_append.mp hp with h1 | h1
    · exact Or.inl (mem_cancel h1)
    · exact Or.inr (by simpa using h1)
  refine ⟨?_, ?_, ?_, ?_, ?_, ?_, ?_⟩
  · intro p hp; rw [hnext]
    rcases hmem p hp with h1 | h1
    · have := h.fresh_open p h1; omega
    · rw [h1]; exact Nat.lt_succ_self _
  · intro i c hc; rw [hnext]; rw [hw] at hc
    split at hc
    · simp at hc; omega
    · have := h.fresh_chan i c hc; omega
  · intro i i' c h1 h2
    rw [hw] at h1 h2
    by_cases e : i = i0 <;> by_cases e' : i' = i0
    · rw [e, e']
    · simp only [e, if_true, e', if_false] at h1 h2
      injection h1 with h1
      have := h.fresh_chan i' c h2; omega
    · simp only [e, if_false, e', if_true] at h1 h2
      injection h2 with h2
      have := h.fresh_chan i c h1; omega
    · simp only [e, e', if_false] at h1 h2; exact h.uniq i i' c h1 h2
  · intro i c hc p hp hpc
    rw [hw] at hc ⊢
    by_cases e : i = i0
    · simp only [e, if_true] at hc ⊢
      injection hc with hc
      rcases hmem p hp with h1 | h1
      · have := h.fresh_open p h1; omega
      · rw [h1]
    · simp only [e, if_false] at hc ⊢
      rcases hmem p hp with h1 | h1
      · exact h.chan_sub i c hc p h1 hpc
      · have := h.fresh_chan i c hc; rw [h1] at hpc; simp at hpc; omega
  · intro p hp; rw [hen]
    rcases hmem p hp with h1 | h1
    · exact List.mem_cons_of_mem _ (h.ent_open p h1)
    · rw [h1]; exact List.mem_cons_self
  · rw [hwr]; exact h.covers
  · intro i hs ha
    rw [hwr, hav] at *
    rw [hw] at hs ha ⊢
    by_cases e : i = i0
    · simp only [e, if_true] at hs
      rcases hs.1 with ⟨h3, _⟩ | h4
      · simp at h3
      · simp at h4
    · simp only [e, if_false] at hs ha ⊢
      apply h.nolost i _ ha
      refine ⟨hs.1, ?_⟩
      cases hc : (σ.waiter i).chan with
      | none => have := hs.2; rw [hc] at this; simp [chanOpen] at this
      | some c =>
        have h2 := hs.2; rw [hc, chanOpen_iff] at h2
        obtain ⟨p, hp, hpc⟩ := h2
        rw [chanOpen_iff]
        rcases hmem p hp with h1 | h1
        · exact ⟨p, h1, hpc⟩
        · have := h.fresh_chan i c hc; rw [h1] at hpc; simp at hpc; omega

theorem Inv.reloop {σ : Sys} (h : Inv σ) (cfg : Cfg) (hr : cfg.registerFirst = true) (i0 : Nat) :
    Inv (Notify.reloop cfg σ i0) := by
  unfold Notify.reloop
  simp only [hr, if_true]
  exact h.register_setpc i0

/-! ### the steps preserve the invariant -/

theorem Inv.waiterStep {σ : Sys} (h : Inv σ) (cfg : Cfg) (hr : cfg.registerFirst = true) (i0 : Nat) :
    Inv (Notify.waiterStep cfg σ i0) := by
  unfold Notify.waiterStep
  simp only
  split
  · -- 0 → 1
    refine Inv.setW h i0 _ ?_ ?_ ?_ <;> try rfl
    rintro ⟨h1 | h1, _⟩
    · simp at h1
    · simp at h1
  · exact h.reloop cfg hr i0
  · -- the query
    rename_i hpc
    have h1 : Inv (Notify.setAvail σ (upd σ.avail (σ.waiter i0).sub
        (σ.avail (σ.waiter i0).sub - (if σ.avail (σ.waiter i0).sub ≤ (σ.waiter i0).max then σ.avail (σ.waiter i0).sub else (σ.waiter i0).max)))) := by
      apply h.setAvail_le
      intro s
      simp only [upd]
      split
      · rename_i e; rw [e]; omega
      · exact Nat.le_refl _
    refine Inv.setW h1 i0 _ ?_ ?_ ?_ <;> try rfl
    rintro ⟨h3 | h4, _⟩
    · right
      have hf : ¬ (0 < σ.avail (σ.waiter i0).sub) := by simpa using h3.2
      show upd σ.avail (σ.waiter i0).sub _ (σ.waiter i0).sub = 0
      rw [upd_same]; omega
    · simp at h4
  · -- after the query
    split
    · have h1 : Inv (Notify.setOpen σ (cancel σ.open (σ.waiter i0).chan)) := h.setOpen _ (fun p hp => mem_cancel hp)
      refine Inv.setW h1 i0 _ ?_ ?_ ?_ <;> try rfl
      rintro ⟨h3 | h4, _⟩
      · simp at h3
      · simp at h4
    · rename_i hpc hf
      split
      · rename_i ho
        refine Inv.setW h i0 _ ?_ ?_ ?_ <;> try rfl
        intro _
        left
        exact ⟨Or.inl ⟨hpc, by simpa using hf⟩, ho⟩
      · exact h.reloop cfg hr i0
  · split
    · exact h
    · exact h.reloop cfg hr i0
  · exact h

theorem Inv.setX_pc {σ : Sys} (j0 : Nat) (pc' : Nat)
    (hfo : ∀ p ∈ σ.open, p.1 < σ.next) (hfc : ∀ i c, (σ.waiter i).chan = some c → c < σ.next)
    (hu : ∀ i i' c, (σ.waiter i).chan = some c → (σ.waiter i').chan = some c → i = i')
    (hcs : ∀ i c, (σ.waiter i).chan = some c → ∀ p ∈ σ.open, p.1 = c → p.2 = (σ.waiter i).sub)
    (heo : ∀ p ∈ σ.open, p.2 ∈ σ.ents)
    (hcov : ∀ j s, 0 < addsFor (σ.writer j).adds s → s ∈ (σ.writer j).wakes)
    (hnl : ∀ i, StuckProne σ.open (σ.waiter i) → 0 < σ.avail (σ.waiter i).sub →
      ∃ j, (if j = j0 then pc' else (σ.writer j).pc) = 1 ∧ (σ.waiter i).sub ∈ (σ.writer j).wakes) :
    Inv (Notify.setX σ j0 { σ.writer j0 with pc := pc' }) := by
  have hx : ∀ j, ((Notify.setX σ j0 { σ.writer j0 with pc := pc' }).writer j) =
      if j = j0 then { σ.writer j0 with pc := pc' } else σ.writer j := fun j => rfl
  refine ⟨hfo, hfc, hu, hcs, heo, ?_, ?_⟩
  · intro j s hs
    rw [hx] at hs ⊢
    split at hs
    · rename_i e; simp only [e, if_true]; exact hcov j0 s hs
    · rename_i e; simp only [e, if_false]; exact hcov j s hs
  · intro i hs ha
    obtain ⟨j, hj1, hj2⟩ := hnl i hs ha
    refine ⟨j, ?_, ?_⟩
    · rw [hx]; split
      · rename_i e; simpa [e] using hj1
      · rename_i e; simpa [e] using hj1
    · rw [hx]; split
      · rename_i e; rw [e] at hj2; exact hj2
      · exact hj2

theorem Inv.writerStep {σ : Sys} (h : Inv σ) (cfg : Cfg) (hc : cfg.wakeContinue = true) (j0 : Nat) :
    Inv (Notify.writerStep cfg σ j0) := by
  unfold Notify.writerStep
  simp only
  split
  · -- commit
    rename_i hpc
    apply Inv.setX_pc (σ := Notify.setAvail σ (fun s => σ.avail s + addsFor (σ.writer j0).adds s)) j0 1
      h.fresh_open h.fresh_chan h.uniq h.chan_sub h.ent_open h.covers
    intro i hs ha
    change 0 < σ.avail (σ.waiter i).sub + addsFor (σ.writer j0).adds (σ.waiter i).sub at ha
    by_cases hz : 0 < σ.avail (σ.waiter i).sub
    · obtain ⟨j, hj1, hj2⟩ := h.nolost i hs hz
      refine ⟨j, ?_, hj2⟩
      have : j ≠ j0 := by intro e; rw [e] at hj1; rw [hpc] at hj1; cases hj1
      simpa [this] using hj1
    · have : 0 < addsFor (σ.writer j0).adds (σ.waiter i).sub := by omega
      exact ⟨j0, by simp, h.covers j0 _ this⟩
  · -- wake
    rename_i hpc
    rw [hc]
    obtain ⟨w1, w2⟩ := wakeAll_spec σ.open σ.ents (σ.writer j0).wakes h.ent_open
    have hsub : ∀ p ∈ (wakeAll true σ.open σ.ents (σ.writer j0).wakes).1, p ∈ σ.open := fun p hp => ((w1 p).mp hp).1
    have h1 := h.setOpen _ hsub
    apply Inv.setX_pc (σ := Notify.setEnts (Notify.setOpen σ (wakeAll true σ.open σ.ents (σ.writer j0).wakes).1)
        (wakeAll true σ.open σ.ents (σ.writer j0).wakes).2) j0 2
      h1.fresh_open h1.fresh_chan h1.uniq h1.chan_sub w2 h1.covers
    intro i hs ha
    change StuckProne (wakeAll true σ.open σ.ents (σ.writer j0).wakes).1 (σ.waiter i) at hs
    change 0 < σ.avail (σ.waiter i).sub at ha
    obtain ⟨j, hj1, hj2⟩ := h.nolost i (hs.mono hsub) ha
    refine ⟨j, ?_, hj2⟩
    by_cases e : j = j0
    · -- the waker itself was the witness: then the waiter's channel has just been closed
      exfalso
      rw [e] at hj2
      cases hch : (σ.waiter i).chan with
      | none => have := hs.2; rw [hch] at this; simp [chanOpen] at this
      | some c =>
        have h2 := hs.2; rw [hch, chanOpen_iff] at h2
        obtain ⟨p, hp, hpc'⟩ := h2
        obtain ⟨hpo, hpn⟩ := (w1 p).mp hp
        have := h.chan_sub i c hch p hpo hpc'
        rw [this] at hpn
        exact hpn hj2
    · simpa [e] using hj1
  · exact h

/-- the configuration for which the invariant is proved -/
def Cfg.Good (cfg : Cfg) : Prop := cfg.wakeContinue = true ∧ cfg.registerFirst = true

theorem Inv.step {σ : Sys} (h : Inv σ) (cfg : Cfg) (hg : cfg.Good) (p : Proc) : Inv (Notify.step cfg σ p) := by
  cases p with
  | waiter i => exact h.waiterStep cfg hg.2 i
  | writer j => exact h.writerStep cfg hg.1 j

theorem Inv.run {σ : Sys} (h : Inv σ) (cfg : Cfg) (hg : cfg.Good) (ps : List Proc) : Inv (Notify.run cfg σ ps) := by
  induction ps generalizing σ with
  | nil => exact h
  | cons p ps ih => exact ih (h.step cfg hg p)

theorem Inv.init (subs maxes : Nat → Nat) (writers : Nat → List (Nat × Nat) × List Nat) (avail : Nat → Nat)
    (hcov : ∀ j s, 0 < addsFor (writers j).1 s → s ∈ (writers j).2) :
    Inv (Notify.init subs maxes writers avail) := by
  refine ⟨?_, ?_, ?_, ?_, ?_, hcov, ?_⟩
  · intro p hp; cases hp
  · intro i c hc; cases hc
  · intro i i' c hc; cases hc
  · intro i c hc; cases hc
  · intro p hp; cases hp
  · rintro i ⟨h3 | h4, _⟩
    · cases h3.1
    · cases h4

end Mmmbbb.Notify
