/-
Frame lemmas: how each action may change the `deliveries` table.

`RowMono d d'` is what every operation other than a seek preserves of a delivery row (identity,
message, subscription, publish instant, retention end) and what it may only move forward
(completion, attempt counter).  `DelsMono l l'` lifts it to tables, row by row *by id* — the way
the SQL code addresses rows — so no uniqueness invariant is needed to state or compose it.
-/
import Mmmbbb.Model.Step
namespace Mmmbbb

structure RowMono (d d' : Delivery) : Prop where
  id : d'.id = d.id
  msg : d'.msgId = d.msgId
  sub : d'.subId = d.subId
  pub : d'.publishedAt = d.publishedAt
  expires : d'.expiresAt = d.expiresAt
  completed : d.completedAt.isSome = true → d'.completedAt.isSome = true
  attempts : d.attempts ≤ d'.attempts

theorem RowMono.refl (d : Delivery) : RowMono d d :=
  ⟨rfl, rfl, rfl, rfl, rfl, fun h => h, Nat.le_refl _⟩

theorem RowMono.trans {a b c : Delivery} (h₁ : RowMono a b) (h₂ : RowMono b c) : RowMono a c :=
  ⟨h₂.id.trans h₁.id, h₂.msg.trans h₁.msg, h₂.sub.trans h₁.sub, h₂.pub.trans h₁.pub,
   h₂.expires.trans h₁.expires, fun h => h₂.completed (h₁.completed h), Nat.le_trans h₁.attempts h₂.attempts⟩

/-- row lookup by primary key -/
def findDel (l : List Delivery) (i : Id) : Option Delivery := l.find? (·.id == i)

theorem Db.delById_eq (db : Db) (i : Id) : db.delById i = findDel db.dels i := rfl

/-- a relation between the old and the new version of a row that every row update used by
    enqueueing and dead-lettering respects -/
structure RowRel (R : Delivery → Delivery → Prop) : Prop where
  refl : ∀ d, R d d
  trans : ∀ {a b c}, R a b → R b c → R a c
  id : ∀ {a b}, R a b → b.id = a.id
  complete : ∀ d t, R d { d with completedAt := some t }

/-- `R` lifted to tables, row by row by primary key -/
def DelsRel (R : Delivery → Delivery → Prop) (l l' : List Delivery) : Prop :=
  ∀ i d, findDel l i = some d → ∃ d', findDel l' i = some d' ∧ R d d'

abbrev DelsMono := DelsRel RowMono

theorem rowRel_mono : RowRel RowMono :=
  ⟨RowMono.refl, RowMono.trans, fun h => h.id,
   fun _ _ => ⟨rfl, rfl, rfl, rfl, rfl, fun _ => rfl, Nat.le_refl _⟩⟩

section
variable {R : Delivery → Delivery → Prop}

theorem DelsRel.refl (hR : RowRel R) (l : List Delivery) : DelsRel R l l :=
  fun _ d h => ⟨d, h, hR.refl d⟩

theorem DelsRel.trans (hR : RowRel R) {a b c : List Delivery} (h₁ : DelsRel R a b) (h₂ : DelsRel R b c) :
    DelsRel R a c := by
  intro i d hd
  obtain ⟨d', hd', r₁⟩ := h₁ i d hd
  obtain ⟨d'', hd'', r₂⟩ := h₂ i d' hd'
  exact ⟨d'', hd'', hR.trans r₁ r₂⟩

theorem findDel_map (l : List Delivery) (g : Delivery → Delivery) (i : Id) (h : ∀ d, (g d).id = d.id) :
    findDel (l.map g) i = (findDel l i).map g := by
  unfold findDel
  rw [List.find?_map]
  have : ((fun x : Delivery => x.id == i) ∘ g) = (fun x => x.id == i) := by
    funext d; simp [Function.comp, h]
  rw [this]

theorem DelsRel.map (hR : RowRel R) (l : List Delivery) (g : Delivery → Delivery) (h : ∀ d, R d (g d)) :
    DelsRel R l (l.map g) := by
  intro i d hd
  refine ⟨g d, ?_, h d⟩
  rw [findDel_map l g i (fun d => hR.id (h d)), hd]; rfl

theorem DelsRel.updateWhere (hR : RowRel R) (l : List Delivery) (p : Delivery → Bool) (f : Delivery → Delivery)
    (h : ∀ d, p d = true → R d (f d)) : DelsRel R l (updateWhere p f l) := by
  unfold Mmmbbb.updateWhere
  apply DelsRel.map hR
  intro d
  by_cases hp : p d = true
  · simp [hp, h d hp]
  · simp [hp, hR.refl]

theorem DelsRel.append (hR : RowRel R) (l rows : List Delivery) : DelsRel R l (l ++ rows) := by
  intro i d hd
  refine ⟨d, ?_, hR.refl d⟩
  unfold findDel at *
  rw [List.find?_append, hd]; rfl

end

/-! ### enqueueing and dead-lettering -/

/-- what `deliverAll` does to the database: it appends delivery rows, nothing else — and which
    checks the observation passed -/
theorem deliverAll_shape {db : Db} {subs : List Sub} {m : Msg} {now : Time} {fwds : List Fwd}
    {db' : Db} {w : List Id} (h : deliverAll db subs m now fwds = .ok (db', w)) :
    ∃ rows, mkRows db subs m now fwds = .ok rows ∧ db' = { db with dels := db.dels ++ rows } ∧
      w = fwds.map (·.subId) := by
  unfold deliverAll at h
  simp only at h
  split at h
  · cases h
  · split at h
    · cases h
    · split at h
      · cases h
      · rename_i rows hr
        injection h with h
        injection h with h1 h2
        exact ⟨rows, hr, h1.symm, h2.symm⟩

theorem deliverAll_checks {db : Db} {subs : List Sub} {m : Msg} {now : Time} {fwds : List Fwd}
    {db' : Db} {w : List Id} (h : deliverAll db subs m now fwds = .ok (db', w)) :
    nodupIds (fwds.map (·.subId)) = true ∧
    (fwds.map (·.subId)).length = ((subs.filter (subAccepts · m.attrs)).map (·.id)).length ∧
    nodupIds (fwds.map (·.newId)) = true ∧ (∀ f ∈ fwds, db.allIds.contains f.newId = false) := by
  unfold deliverAll at h
  simp only at h
  split at h
  · cases h
  · rename_i h1
    split at h
    · cases h
    · rename_i h2
      simp only [Bool.not_eq_true, Bool.not_eq_false', Bool.and_eq_true, beq_iff_eq] at h1 h2
      refine ⟨h1.1.1, h1.1.2, h2.1, ?_⟩
      intro f hf
      have := List.all_eq_true.mp h2.2 f hf
      simpa using this

section
variable {R : Delivery → Delivery → Prop}

theorem deliverAll_mono (hR : RowRel R) {db : Db} {subs : List Sub} {m : Msg} {now : Time} {fwds : List Fwd}
    {db' : Db} {w : List Id} (h : deliverAll db subs m now fwds = .ok (db', w)) :
    DelsRel R db.dels db'.dels := by
  obtain ⟨rows, _, rfl, _⟩ := deliverAll_shape h
  exact DelsRel.append hR _ _

theorem markCompleted_mono (hR : RowRel R) (i : Id) (now : Time) (l : List Delivery) :
    DelsRel R l (markCompleted i now l) := by
  unfold markCompleted
  exact DelsRel.updateWhere hR _ _ _ (fun x _ => hR.complete x now)

theorem dlForward_shape {db : Db} {d : Delivery} {dlt : Id} {now : Time} {fwds : List Fwd}
    {db1 : Db} {w : List Id} (h : dlForward db d dlt now fwds = .ok (db1, w)) :
    ∃ rows, db1 = { db with dels := db.dels ++ rows } := by
  unfold dlForward at h
  split at h
  · split at h
    · injection h with h; injection h with h1 _; exact ⟨[], by simp [← h1]⟩
    · cases h
  · split at h
    · split at h
      · injection h with h; injection h with h1 _; exact ⟨[], by simp [← h1]⟩
      · cases h
    · split at h
      · cases h
      · obtain ⟨rows, _, h1, _⟩ := deliverAll_shape h
        exact ⟨rows, h1⟩

theorem deadLetter_shape {db : Db} {d : Delivery} {dlt : Id} {now : Time} {fwds : List Fwd}
    {db' : Db} {w : List Id} (h : deadLetter db d dlt now fwds = .ok (db', w)) :
    ∃ rows, db' = { db with dels := markCompleted d.id now (db.dels ++ rows) } := by
  unfold deadLetter at h
  split at h
  · cases h
  · rename_i db1 w1 hf
    obtain ⟨rows, rfl⟩ := dlForward_shape hf
    split at h
    · cases h
    · injection h with h
      injection h with h1 _
      exact ⟨rows, h1.symm⟩

theorem deadLetter_mono (hR : RowRel R) {db : Db} {d : Delivery} {dlt : Id} {now : Time} {fwds : List Fwd}
    {db' : Db} {w : List Id} (h : deadLetter db d dlt now fwds = .ok (db', w)) :
    DelsRel R db.dels db'.dels := by
  obtain ⟨rows, rfl⟩ := deadLetter_shape h
  exact DelsRel.trans hR (DelsRel.append hR _ rows) (markCompleted_mono hR _ _ _)

end

/-- the four tables an action on deliveries leaves alone -/
def SameOther (db db' : Db) : Prop :=
  db'.topics = db.topics ∧ db'.subs = db.subs ∧ db'.msgs = db.msgs ∧ db'.snaps = db.snaps

theorem SameOther.refl (db : Db) : SameOther db db := ⟨rfl, rfl, rfl, rfl⟩
theorem SameOther.trans {a b c : Db} (h₁ : SameOther a b) (h₂ : SameOther b c) : SameOther a c :=
  ⟨h₂.1.trans h₁.1, h₂.2.1.trans h₁.2.1, h₂.2.2.1.trans h₁.2.2.1, h₂.2.2.2.trans h₁.2.2.2⟩

theorem deadLetter_other {db : Db} {d : Delivery} {dlt : Id} {now : Time} {fwds : List Fwd}
    {db' : Db} {w : List Id} (h : deadLetter db d dlt now fwds = .ok (db', w)) : SameOther db db' := by
  obtain ⟨rows, rfl⟩ := deadLetter_shape h
  exact ⟨rfl, rfl, rfl, rfl⟩

section
variable {R : Delivery → Delivery → Prop}

/-! ### pull -/

theorem pullLoop_rel (hR : RowRel R) (s : Sub) (now : Time) (maxBytes : Nat) (strict : Bool) (obs : PullObs) :
    ∀ (cands : List Delivery) (i : Nat) (acc acc' : PullAcc),
      pullLoop s now maxBytes strict obs i cands acc = .ok acc' →
      DelsRel R acc.db.dels acc'.db.dels ∧ SameOther acc.db acc'.db := by
  intro cands
  induction cands with
  | nil =>
    intro i acc acc' h
    unfold pullLoop at h
    injection h with h; subst h
    exact ⟨DelsRel.refl hR _, SameOther.refl _⟩
  | cons d r ih =>
    intro i acc acc' h
    unfold pullLoop at h
    split at h
    · cases h
    · split at h
      · exact ih _ _ _ h
      · split at h
        · split at h
          · cases h
          · rename_i db' w hdl
            have := ih _ _ _ h
            exact ⟨DelsRel.trans hR (deadLetter_mono hR hdl) this.1, SameOther.trans (deadLetter_other hdl) this.2⟩
        · split at h
          · cases h
          · have := ih _ _ _ h
            exact this

/-! ### ack / nack / delay / sweep / publish -/

theorem ack_rel (hR : RowRel R) {db : Db} {now : Time} {ids : List Id} {o : TxOut Nat} (h : ack db now ids = .ok o) :
    DelsRel R db.dels o.db.dels ∧ SameOther db o.db := by
  unfold ack at h
  injection h with h; subst h
  exact ⟨DelsRel.updateWhere hR _ _ _ (fun x _ => hR.complete x now), SameOther.refl _⟩

/-- `delay` under a relation that tolerates the deadline updates this call makes -/
theorem delay_rel (hR : RowRel R) {db : Db} {now : Time} {ids : List Id} {Δ : Int} {o : TxOut Nat}
    (hupd : ∀ d : Delivery, (Δ ≤ 0 ∨ d.attemptAt < now + Δ) → R d { d with attemptAt := now + Δ })
    (h : delay db now ids Δ = .ok o) : DelsRel R db.dels o.db.dels ∧ SameOther db o.db := by
  unfold delay at h
  simp only at h
  split at h
  · rename_i hle
    injection h with h; subst h
    exact ⟨DelsRel.updateWhere hR _ _ _ (fun x _ => hupd x (Or.inl hle)), SameOther.refl _⟩
  · injection h with h; subst h
    refine ⟨DelsRel.updateWhere hR _ _ _ (fun x hp => hupd x (Or.inr ?_)), SameOther.refl _⟩
    simp only [Bool.and_eq_true, decide_eq_true_eq] at hp
    exact hp.2

theorem nackLoop_rel (hR : RowRel R) (hatt : ∀ (d : Delivery) (t : Time), R d { d with attemptAt := t })
    (now : Time) (delays : List (Id × Int)) (fwds : List (Id × List Fwd)) :
    ∀ (rows : List Delivery) (acc acc' : NackAcc),
      nackLoop now delays fwds rows acc = .ok acc' →
      DelsRel R acc.db.dels acc'.db.dels ∧ SameOther acc.db acc'.db := by
  intro rows
  induction rows with
  | nil =>
    intro acc acc' h
    unfold nackLoop at h
    injection h with h; subst h
    exact ⟨DelsRel.refl hR _, SameOther.refl _⟩
  | cons d r ih =>
    intro acc acc' h
    unfold nackLoop at h
    split at h
    · cases h
    · split at h
      · split at h
        · cases h
        · rename_i db' w hdl
          have := ih _ _ h
          exact ⟨DelsRel.trans hR (deadLetter_mono hR hdl) this.1, SameOther.trans (deadLetter_other hdl) this.2⟩
      · split at h
        · cases h
        · have := ih _ _ h
          refine ⟨DelsRel.trans hR ?_ this.1, SameOther.trans ⟨rfl, rfl, rfl, rfl⟩ this.2⟩
          unfold setAttemptAt
          exact DelsRel.updateWhere hR _ _ _ (fun x _ => hatt x _)

theorem nack_rel (hR : RowRel R) (hatt : ∀ (d : Delivery) (t : Time), R d { d with attemptAt := t })
    {db : Db} {now : Time} {ids : List Id} {delays : List (Id × Int)}
    {fwds : List (Id × List Fwd)} {o : TxOut (Nat × Nat)} (h : nack db now ids delays fwds = .ok o) :
    DelsRel R db.dels o.db.dels ∧ SameOther db o.db := by
  unfold nack at h
  simp only at h
  split at h
  · cases h
  · rename_i acc hl
    injection h with h; subst h
    exact nackLoop_rel hR hatt _ _ _ _ _ _ hl

theorem sweepLoop_rel (hR : RowRel R) (now : Time) (fwds : List (Id × List Fwd)) :
    ∀ (rows : List Delivery) (db : Db) (wk : List Id) (db' : Db) (wk' : List Id),
      sweepLoop now fwds rows db wk = .ok (db', wk') → DelsRel R db.dels db'.dels ∧ SameOther db db' := by
  intro rows
  induction rows with
  | nil =>
    intro db wk db' wk' h
    unfold sweepLoop at h
    injection h with h; injection h with h1 _; subst h1
    exact ⟨DelsRel.refl hR _, SameOther.refl _⟩
  | cons d r ih =>
    intro db wk db' wk' h
    unfold sweepLoop at h
    split at h
    · cases h
    · split at h
      · cases h
      · rename_i db1 w hdl
        have := ih _ _ _ _ h
        exact ⟨DelsRel.trans hR (deadLetter_mono hR hdl) this.1, SameOther.trans (deadLetter_other hdl) this.2⟩

theorem dlSweep_rel (hR : RowRel R) {db : Db} {now : Time} {max : Nat} {victims : List Id}
    {fwds : List (Id × List Fwd)} {o : TxOut Nat} (h : dlSweep db now max victims fwds = .ok o) :
    DelsRel R db.dels o.db.dels ∧ SameOther db o.db := by
  unfold dlSweep at h
  split at h
  · cases h
  · split at h
    · cases h
    · split at h
      · cases h
      · rename_i db' wk hl
        injection h with h; subst h
        exact sweepLoop_rel hR _ _ _ _ _ _ _ hl

theorem publishOne_rel (hR : RowRel R) {db : Db} {t : Topic} {now : Time} {pm : PubMsg} {db' : Db} {w : List Id}
    (h : publishOne db t now pm = .ok (db', w)) :
    DelsRel R db.dels db'.dels ∧ db'.topics = db.topics ∧ db'.subs = db.subs ∧ db'.snaps = db.snaps := by
  unfold publishOne at h
  split at h
  · cases h
  · simp only at h
    obtain ⟨rows, _, h1, _⟩ := deliverAll_shape h
    subst h1
    exact ⟨DelsRel.append hR _ _, rfl, rfl, rfl⟩

theorem publishLoop_rel (hR : RowRel R) (t : Topic) (tick : Int) :
    ∀ (msgs : List PubMsg) (db : Db) (now : Time) (wk : List Id) (db' : Db) (wk' : List Id),
      publishLoop t tick db now wk msgs = .ok (db', wk') →
      DelsRel R db.dels db'.dels ∧ db'.topics = db.topics ∧ db'.subs = db.subs ∧ db'.snaps = db.snaps := by
  intro msgs
  induction msgs with
  | nil =>
    intro db now wk db' wk' h
    unfold publishLoop at h
    injection h with h; injection h with h1 _; subst h1
    exact ⟨DelsRel.refl hR _, rfl, rfl, rfl⟩
  | cons pm r ih =>
    intro db now wk db' wk' h
    unfold publishLoop at h
    split at h
    · cases h
    · rename_i db1 w h1
      have a := publishOne_rel hR h1
      have b := ih _ _ _ _ _ h
      exact ⟨DelsRel.trans hR a.1 b.1, b.2.1.trans a.2.1, b.2.2.1.trans a.2.2.1, b.2.2.2.trans a.2.2.2⟩

theorem publish_rel (hR : RowRel R) {db : Db} {now : Time} {topic : String} {tick : Int} {msgs : List PubMsg}
    {o : TxOut (List Id)} (h : publish db now topic tick msgs = .ok o) :
    DelsRel R db.dels o.db.dels ∧ o.db.topics = db.topics ∧ o.db.subs = db.subs ∧ o.db.snaps = db.snaps := by
  unfold publish at h
  split at h
  · cases h
  · split at h
    · cases h
    · rename_i db' wk hl
      injection h with h; subst h
      exact publishLoop_rel hR _ _ _ _ _ _ _ _ hl

end

/-! ### the `RowMono` instances -/

theorem rowMono_lease (now : Time) (δ : Int) (d : Delivery) : RowMono d (leaseRow now δ d) :=
  ⟨rfl, rfl, rfl, rfl, rfl, fun h => h, Nat.le_succ _⟩

theorem rowMono_attemptAt (d : Delivery) (t : Time) : RowMono d { d with attemptAt := t } :=
  ⟨rfl, rfl, rfl, rfl, rfl, fun h => h, Nat.le_refl _⟩

theorem applyLeases_mono (now : Time) (dl : List (Delivery × Int)) (l : List Delivery) :
    DelsMono l (applyLeases now dl l) := by
  unfold applyLeases
  apply DelsRel.map rowRel_mono
  intro d
  unfold applyLease
  split
  · exact rowMono_lease _ _ _
  · exact RowMono.refl _

theorem pull_mono {db : Db} {now : Time} {sub : String} {max maxBytes : Nat} {strict : Bool} {wait : Int}
    {obs : PullObs} {o : TxOut PullRes} {now' : Time}
    (h : pull db now sub max maxBytes strict wait obs = .ok (o, now')) :
    DelsMono db.dels o.db.dels ∧ o.db.topics = db.topics ∧ o.db.msgs = db.msgs ∧ o.db.snaps = db.snaps := by
  unfold pull at h
  split at h
  · cases h
  · rename_i s _
    simp only at h
    split at h
    · cases h
    · split at h
      · cases h
      · split at h
        · injection h with h; injection h with h1 _; subst h1
          exact ⟨DelsRel.refl rowRel_mono _, rfl, rfl, rfl⟩
        · split at h
          · cases h
          · rename_i o' hd
            injection h with h; injection h with h1 _; subst h1
            unfold pullDeliver at hd
            split at hd
            · cases hd
            · rename_i acc hl
              injection hd with hd; subst hd
              have := pullLoop_rel rowRel_mono _ _ _ _ _ _ _ _ _ hl
              refine ⟨DelsRel.trans rowRel_mono this.1 (applyLeases_mono _ _ _), ?_, ?_, ?_⟩
              · exact this.2.1
              · exact this.2.2.2.1
              · exact this.2.2.2.2

theorem ack_mono {db : Db} {now : Time} {ids : List Id} {o : TxOut Nat} (h : ack db now ids = .ok o) :
    DelsMono db.dels o.db.dels ∧ SameOther db o.db := ack_rel rowRel_mono h

theorem delay_mono {db : Db} {now : Time} {ids : List Id} {Δ : Int} {o : TxOut Nat}
    (h : delay db now ids Δ = .ok o) : DelsMono db.dels o.db.dels ∧ SameOther db o.db :=
  delay_rel rowRel_mono (fun d _ => rowMono_attemptAt d _) h

theorem nack_mono {db : Db} {now : Time} {ids : List Id} {delays : List (Id × Int)}
    {fwds : List (Id × List Fwd)} {o : TxOut (Nat × Nat)} (h : nack db now ids delays fwds = .ok o) :
    DelsMono db.dels o.db.dels ∧ SameOther db o.db := nack_rel rowRel_mono rowMono_attemptAt h

theorem dlSweep_mono {db : Db} {now : Time} {max : Nat} {victims : List Id} {fwds : List (Id × List Fwd)}
    {o : TxOut Nat} (h : dlSweep db now max victims fwds = .ok o) :
    DelsMono db.dels o.db.dels ∧ SameOther db o.db := dlSweep_rel rowRel_mono h

theorem publish_mono {db : Db} {now : Time} {topic : String} {tick : Int} {msgs : List PubMsg}
    {o : TxOut (List Id)} (h : publish db now topic tick msgs = .ok o) :
    DelsMono db.dels o.db.dels ∧ o.db.topics = db.topics ∧ o.db.subs = db.subs ∧ o.db.snaps = db.snaps :=
  publish_rel rowRel_mono h

end Mmmbbb
