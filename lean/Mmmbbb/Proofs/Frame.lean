/-
Frame lemmas: how each action may change the `deliveries` table.

`RowMono d d'` is what every operation other than a seek preserves of a delivery row (identity,
message, subscription, publish instant, retention end) and what it may only move forward
(completion, attempt counter).  `DelsMono l l'` lifts it to tables, row by row *by id* — the way
the SQL code addresses rows — so no uniqueness invariant is needed to state or compose it.
-/
import Mmmbbb.Model.Step
namespace Mmmbbb

structure RowMono (d d' : Delivery) : Prop where
  id : d'.id = d.id
  msg : d'.msgId = d.msgId
  sub : d'.subId = d.subId
  pub : d'.publishedAt = d.publishedAt
  expires : d'.expiresAt = d.expiresAt
  completed : d.completedAt.isSome = true → d'.completedAt.isSome = true
  attempts : d.attempts ≤ d'.attempts

theorem RowMono.refl (d : Delivery) : RowMono d d :=
  ⟨rfl, rfl, rfl, rfl, rfl, fun h => h, Nat.le_refl _⟩

theorem RowMono.trans {a b c : Delivery} (h₁ : RowMono a b) (h₂ : RowMono b c) : RowMono a c :=
  ⟨h₂.id.trans h₁.id, h₂.msg.trans h₁.msg, h₂.sub.trans h₁.sub, h₂.pub.trans h₁.pub,
   h₂.expires.trans h₁.expires, fun h => h₂.completed (h₁.completed h), Nat.le_trans h₁.attempts h₂.attempts⟩

/-- row lookup by primary key -/
def findDel (l : List Delivery) (i : Id) : Option Delivery := l.find? (·.id == i)

theorem Db.delById_eq (db : Db) (i : Id) : db.delById i = findDel db.dels i := rfl

def DelsMono (l l' : List Delivery) : Prop :=
  ∀ i d, findDel l i = some d → ∃ d', findDel l' i = some d' ∧ RowMono d d'

theorem DelsMono.refl (l : List Delivery) : DelsMono l l :=
  fun _ d h => ⟨d, h, RowMono.refl d⟩

theorem DelsMono.trans {a b c : List Delivery} (h₁ : DelsMono a b) (h₂ : DelsMono b c) : DelsMono a c := by
  intro i d hd
  obtain ⟨d', hd', r₁⟩ := h₁ i d hd
  obtain ⟨d'', hd'', r₂⟩ := h₂ i d' hd'
  exact ⟨d'', hd'', r₁.trans r₂⟩

theorem findDel_map (l : List Delivery) (g : Delivery → Delivery) (i : Id) (h : ∀ d, (g d).id = d.id) :
    findDel (l.map g) i = (findDel l i).map g := by
  unfold findDel
  rw [List.find?_map]
  have : ((fun x : Delivery => x.id == i) ∘ g) = (fun x => x.id == i) := by
    funext d; simp [Function.comp, h]
  rw [this]

theorem DelsMono.map (l : List Delivery) (g : Delivery → Delivery) (h : ∀ d, RowMono d (g d)) :
    DelsMono l (l.map g) := by
  intro i d hd
  refine ⟨g d, ?_, h d⟩
  rw [findDel_map l g i (fun d => (h d).id), hd]; rfl

theorem DelsMono.updateWhere (l : List Delivery) (p : Delivery → Bool) (f : Delivery → Delivery)
    (h : ∀ d, p d = true → RowMono d (f d)) : DelsMono l (updateWhere p f l) := by
  unfold Mmmbbb.updateWhere
  apply DelsMono.map
  intro d
  by_cases hp : p d = true
  · simp [hp, h d hp]
  · simp [hp, RowMono.refl]

theorem DelsMono.append (l rows : List Delivery) : DelsMono l (l ++ rows) := by
  intro i d hd
  refine ⟨d, ?_, RowMono.refl d⟩
  unfold findDel at *
  rw [List.find?_append, hd]; rfl

/-! ### enqueueing and dead-lettering -/

/-- what `deliverAll` does to the database: it appends delivery rows, nothing else -/
theorem deliverAll_shape {db : Db} {subs : List Sub} {m : Msg} {now : Time} {fwds : List Fwd}
    {db' : Db} {w : List Id} (h : deliverAll db subs m now fwds = .ok (db', w)) :
    ∃ rows, db' = { db with dels := db.dels ++ rows } := by
  unfold deliverAll at h
  simp only [bind, Except.bind] at h
  split at h
  · cases h
  · split at h
    · cases h
    · cases hr : mkRows db subs m now fwds with
      | error e => simp [hr] at h
      | ok rows =>
        simp only [hr] at h
        injection h with h
        injection h with h1 h2
        exact ⟨rows, h1.symm⟩

theorem deliverAll_mono {db : Db} {subs : List Sub} {m : Msg} {now : Time} {fwds : List Fwd}
    {db' : Db} {w : List Id} (h : deliverAll db subs m now fwds = .ok (db', w)) :
    DelsMono db.dels db'.dels := by
  obtain ⟨rows, rfl⟩ := deliverAll_shape h
  exact DelsMono.append _ _

/-- completing a row is monotone -/
theorem rowMono_complete (d : Delivery) (t : Time) : RowMono d { d with completedAt := some t } :=
  ⟨rfl, rfl, rfl, rfl, rfl, fun _ => rfl, Nat.le_refl _⟩

theorem deadLetter_shape {db : Db} {d : Delivery} {dlt : Id} {now : Time} {fwds : List Fwd}
    {db' : Db} {w : List Id} (h : deadLetter db d dlt now fwds = .ok (db', w)) :
    ∃ rows, db' = { db with dels := markCompleted d.id now (db.dels ++ rows) } := by
  unfold deadLetter at h
  simp only [bind, Except.bind] at h
  -- first stage: forwards
  split at h
  · cases h
  · rename_i v hv
    obtain ⟨db1, w1⟩ := v
    simp only at h
    have hshape : ∃ rows, db1 = { db with dels := db.dels ++ rows } := by
      split at hv
      · split at hv
        · injection hv with hv; injection hv with h1 _; exact ⟨[], by simp [← h1]⟩
        · cases hv
      · split at hv
        · split at hv
          · injection hv with hv; injection hv with h1 _; exact ⟨[], by simp [← h1]⟩
          · cases hv
        · split at hv
          · cases hv
          · exact deliverAll_shape hv
    obtain ⟨rows, rfl⟩ := hshape
    split at h
    · cases h
    · injection h with h
      injection h with h1 _
      exact ⟨rows, h1.symm⟩

theorem deadLetter_mono {db : Db} {d : Delivery} {dlt : Id} {now : Time} {fwds : List Fwd}
    {db' : Db} {w : List Id} (h : deadLetter db d dlt now fwds = .ok (db', w)) :
    DelsMono db.dels db'.dels := by
  obtain ⟨rows, rfl⟩ := deadLetter_shape h
  exact (DelsMono.append _ rows).trans
    (by unfold markCompleted; exact DelsMono.updateWhere _ _ _ (fun x _ => rowMono_complete x now))

theorem deadLetter_other {db : Db} {d : Delivery} {dlt : Id} {now : Time} {fwds : List Fwd}
    {db' : Db} {w : List Id} (h : deadLetter db d dlt now fwds = .ok (db', w)) :
    db'.topics = db.topics ∧ db'.subs = db.subs ∧ db'.msgs = db.msgs ∧ db'.snaps = db.snaps := by
  obtain ⟨rows, rfl⟩ := deadLetter_shape h
  exact ⟨rfl, rfl, rfl, rfl⟩

end Mmmbbb
