/-
The ordering invariant of the deliveries table and its preservation by every step that satisfies
`Ord.stepOk` (Model/Ordered.lean).  Property theorem: `Properties/C05.lean`.
-/
import Mmmbbb.Model.Ordered
namespace Mmmbbb.Ord

/-- The invariant.  `link`: a keyed row of a live ordered subscription that has an older outstanding
    same-key row is linked behind a same-key row at least as new as that one.  `touched`: a row that
    has ever been handed out or completed has no older outstanding same-key row. -/
structure Inv (db : Db) (now : Time) : Prop where
  uniq : (db.dels.map (·.id)).Nodup
  past : ∀ d ∈ db.dels, d.publishedAt ≤ now
  ttl : ∀ d ∈ db.dels, ∀ s ∈ db.subs, s.live = true → s.id = d.subId → d.expiresAt = d.publishedAt + s.messageTtl
  stamp : ∀ d ∈ db.dels, ∀ e ∈ db.dels, liveOrd db d.subId = true → d.subId = e.subId → keyOf db d = keyOf db e →
    keyOf db d ≠ none → d.publishedAt = e.publishedAt → d.id = e.id
  link : ∀ d ∈ db.dels, ∀ e ∈ db.dels, liveOrd db d.subId = true → d.subId = e.subId → keyOf db d = keyOf db e →
    keyOf db d ≠ none → e.publishedAt < d.publishedAt → e.isOpen now = true →
    ∃ q ∈ db.dels, d.notBefore = some q.id ∧ q.subId = d.subId ∧ keyOf db q = keyOf db d ∧ e.publishedAt ≤ q.publishedAt
  touched : ∀ q ∈ db.dels, ∀ e ∈ db.dels, liveOrd db q.subId = true → q.subId = e.subId → keyOf db q = keyOf db e →
    keyOf db q ≠ none → (0 < q.attempts ∨ q.completedAt.isSome = true) → e.publishedAt < q.publishedAt →
    e.isOpen now = false

/-! ### small facts -/

theorem keyOf_dels (db : Db) (l : List Delivery) (d : Delivery) : keyOf { db with dels := l } d = keyOf db d := rfl
theorem liveOrd_dels (db : Db) (l : List Delivery) (x : Id) : liveOrd { db with dels := l } x = liveOrd db x := rfl

theorem eq_of_nodup_ids {l : List Delivery} (h : (l.map (·.id)).Nodup) {a b : Delivery} (ha : a ∈ l) (hb : b ∈ l)
    (hid : a.id = b.id) : a = b := by
  induction l with
  | nil => cases ha
  | cons x r ih =>
    simp only [List.map_cons, List.nodup_cons, List.mem_map, not_exists, not_and] at h
    simp only [List.mem_cons] at ha hb
    rcases ha with rfl | ha
    · rcases hb with rfl | hb
      · rfl
      · exact absurd hid.symm (h.1 b hb)
    · rcases hb with rfl | hb
      · exact absurd hid (h.1 a ha)
      · exact ih h.2 ha hb

theorem isOpen_false_iff (now : Time) (d : Delivery) :
    d.isOpen now = false ↔ (d.completedAt.isSome = true ∨ d.expiresAt ≤ now) := by
  unfold Delivery.isOpen
  cases h : d.completedAt <;> simp [Int.not_lt]

theorem isOpen_true_iff (now : Time) (d : Delivery) :
    d.isOpen now = true ↔ (d.completedAt.isNone = true ∧ now < d.expiresAt) := by
  unfold Delivery.isOpen
  simp

theorem liveOrd_iff (db : Db) (x : Id) :
    liveOrd db x = true ↔ ∃ s ∈ db.subs, s.id = x ∧ s.live = true ∧ s.ordered = true := by
  unfold liveOrd
  simp only [List.any_eq_true, Bool.and_eq_true, beq_iff_eq]
  constructor
  · rintro ⟨s, hs, ⟨h1, h2⟩, h3⟩; exact ⟨s, hs, h1, h2, h3⟩
  · rintro ⟨s, hs, h1, h2, h3⟩; exact ⟨s, hs, ⟨h1, h2⟩, h3⟩

/-- done-ness is closed downwards along a key: below a row that is not outstanding nothing of the
    key is outstanding -/
theorem Inv.closed {db : Db} {now : Time} (h : Inv db now) {q e : Delivery} (hq : q ∈ db.dels) (he : e ∈ db.dels)
    (hord : liveOrd db q.subId = true) (hsub : q.subId = e.subId) (hkey : keyOf db q = keyOf db e)
    (hk : keyOf db q ≠ none) (hle : e.publishedAt ≤ q.publishedAt) (hdone : q.isOpen now = false) :
    e.isOpen now = false := by
  rcases (isOpen_false_iff now q).mp hdone with hc | hx
  · -- completed: by `touched`, or it is the same row
    rcases Int.lt_or_eq_of_le hle with hlt | heq
    · exact h.touched q hq e he hord hsub hkey hk (Or.inr hc) hlt
    · have hid := h.stamp q hq e he hord hsub hkey hk heq.symm
      have := eq_of_nodup_ids h.uniq hq he hid
      rw [← this]; exact hdone
  · -- expired: the older row's retention ended no later
    obtain ⟨s, hs, hsid, hlive, _⟩ := (liveOrd_iff db q.subId).mp hord
    have h1 := h.ttl q hq s hs hlive hsid
    have h2 := h.ttl e he s hs hlive (hsid.trans hsub)
    refine (isOpen_false_iff now e).mpr (Or.inr ?_)
    unfold Time at *
    omega

/-- **the ordering property of a state**: on a live ordered subscription a keyed row is not eligible
    while an older same-key row is outstanding -/
theorem Inv.ordered {db : Db} {now : Time} (h : Inv db now) (s : Sub) (hs : s ∈ db.subs) (hlive : s.live = true)
    (hordered : s.ordered = true) (d e : Delivery) (hd : d ∈ db.dels) (he : e ∈ db.dels)
    (hds : d.subId = s.id) (hes : e.subId = s.id) (hkey : keyOf db d = keyOf db e) (hk : keyOf db d ≠ none)
    (hlt : e.publishedAt < d.publishedAt) (hopen : e.isOpen now = true) :
    db.eligible s now d = false := by
  have hord : liveOrd db d.subId = true := (liveOrd_iff db d.subId).mpr ⟨s, hs, hds.symm, hlive, hordered⟩
  obtain ⟨q, hq, hnb, hqs, hqk, hqle⟩ := h.link d hd e he hord (hds.trans hes.symm) hkey hk hlt hopen
  cases hel : db.eligible s now d with
  | false => rfl
  | true =>
    exfalso
    unfold Db.eligible at hel
    simp only [Bool.and_eq_true, hordered, Bool.not_true, Bool.false_or] at hel
    have hpd := hel.2
    unfold Db.predDone at hpd
    rw [hnb] at hpd
    simp only at hpd
    cases hq3 : db.delById q.id with
    | none => rw [hq3] at hpd; cases hpd
    | some q3 =>
      rw [hq3] at hpd
      have hq3m : q3 ∈ db.dels := List.mem_of_find?_eq_some hq3
      have hq3id : q3.id = q.id := by
        have := List.find?_some hq3
        simpa using this
      have heq : q3 = q := eq_of_nodup_ids h.uniq hq3m hq hq3id
      subst heq
      have hdone : q3.isOpen now = false := by
        refine (isOpen_false_iff now q3).mpr ?_
        simpa using hpd
      have := h.closed hq he (by rw [hqs]; exact hord) (hqs.trans (hds.trans hes.symm)) (hqk.trans hkey)
        (by rw [hqk]; exact hk) hqle hdone
      rw [this] at hopen; cases hopen

theorem Inv.init (now : Time) : Inv {} now := by
  refine ⟨List.nodup_nil, ?_, ?_, ?_, ?_, ?_⟩ <;> (intro d hd; cases hd)

/-! ### the update phase of a growing step -/

/-- what `rowUpdOk` says -/
structure RowUpd (db : Db) (now : Time) (db' : Db) (d d' : Delivery) : Prop where
  id : d'.id = d.id
  sub : d'.subId = d.subId
  pub : d'.publishedAt = d.publishedAt
  exp : d'.expiresAt = d.expiresAt
  nb : d'.notBefore = d.notBefore
  comp : d.completedAt.isSome = true → d'.completedAt.isSome = true
  att : d.attempts ≤ d'.attempts
  key : keyOf db' d' = keyOf db d
  just : (d.attempts < d'.attempts ∨ (d.completedAt.isNone = true ∧ d'.completedAt.isSome = true)) →
    liveOrd db d.subId = true → keyOf db d ≠ none → (0 < d.attempts ∨ db.predDone now d = true)

theorem rowUpd_of_ok {db : Db} {now : Time} {db' : Db} {d d' : Delivery} (h : rowUpdOk db now db' d d' = true) :
    RowUpd db now db' d d' := by
  unfold rowUpdOk at h
  simp only [Bool.and_eq_true, beq_iff_eq, Bool.or_eq_true, decide_eq_true_eq, Bool.not_eq_true'] at h
  obtain ⟨⟨⟨⟨⟨⟨⟨⟨⟨h1, _⟩, h3⟩, h4⟩, h5⟩, h6⟩, h7⟩, h8⟩, h9⟩, h10⟩ := h
  refine ⟨h1, h3, h4, h5, h6, ?_, h8, h9, ?_⟩
  · intro hc
    rcases h7 with h7 | h7
    · cases hd : d.completedAt <;> simp [hd] at hc h7
    · exact h7
  · intro hch hord hk
    rcases h10 with ((((h10 | h10) | h10) | h10) | h10)
    · exfalso
      simp only [Bool.or_eq_false_iff, decide_eq_false_iff_not, Bool.and_eq_false_iff] at h10
      rcases hch with hch | hch
      · exact h10.1 hch
      · rcases h10.2 with h | h
        · rw [hch.1] at h; cases h
        · rw [hch.2] at h; cases h
    · rw [hord] at h10; cases h10
    · exfalso; apply hk; cases hkk : keyOf db d <;> simp [hkk] at h10 ⊢
    · exact Or.inl h10
    · exact Or.inr h10

/-- two lists related position by position -/
inductive All2 {α β} (R : α → β → Prop) : List α → List β → Prop
  | nil : All2 R [] []
  | cons {a b l u} : R a b → All2 R l u → All2 R (a :: l) (b :: u)

theorem forall2_of_rowsUpdOk {db : Db} {now : Time} {db' : Db} : ∀ {l u : List Delivery},
    rowsUpdOk db now db' l u = true → All2 (RowUpd db now db') l u
  | [], [], _ => All2.nil
  | d :: r, d' :: r', h => by
    simp only [rowsUpdOk, Bool.and_eq_true] at h
    exact All2.cons (rowUpd_of_ok h.1) (forall2_of_rowsUpdOk h.2)
  | [], _ :: _, h => by simp [rowsUpdOk] at h
  | _ :: _, [], h => by simp [rowsUpdOk] at h

theorem forall2_mem_right {α β} {R : α → β → Prop} : ∀ {l : List α} {u : List β}, All2 R l u →
    ∀ b ∈ u, ∃ a ∈ l, R a b
  | _, _, .nil, b, hb => by cases hb
  | _, _, .cons hab hr, b, hb => by
    simp only [List.mem_cons] at hb
    rcases hb with rfl | hb
    · exact ⟨_, List.mem_cons_self, hab⟩
    · obtain ⟨a, ha, r⟩ := forall2_mem_right hr b hb
      exact ⟨a, List.mem_cons_of_mem _ ha, r⟩

theorem forall2_mem_left {α β} {R : α → β → Prop} : ∀ {l : List α} {u : List β}, All2 R l u →
    ∀ a ∈ l, ∃ b ∈ u, R a b
  | _, _, .nil, a, ha => by cases ha
  | _, _, .cons hab hr, a, ha => by
    simp only [List.mem_cons] at ha
    rcases ha with rfl | ha
    · exact ⟨_, List.mem_cons_self, hab⟩
    · obtain ⟨b, hb, r⟩ := forall2_mem_left hr a ha
      exact ⟨b, List.mem_cons_of_mem _ hb, r⟩

theorem forall2_ids {db : Db} {now : Time} {db' : Db} : ∀ {l u : List Delivery},
    All2 (RowUpd db now db') l u → u.map (·.id) = l.map (·.id)
  | _, _, .nil => rfl
  | _, _, .cons hab hr => by simp [hab.id, forall2_ids hr]

/-- what `subsOk` says about a row of the new table -/
theorem subsOk_spec {db db' : Db} (h : subsOk db db' = true) {s' : Sub} (hs' : s' ∈ db'.subs) (hl : s'.live = true)
    {d' : Delivery} (hd' : d' ∈ db'.dels) (hid : s'.id = d'.subId) :
    ∃ s ∈ db.subs, s.live = true ∧ s.id = s'.id ∧ s.ordered = s'.ordered ∧ s.messageTtl = s'.messageTtl := by
  unfold subsOk at h
  have := List.all_eq_true.mp h s' hs'
  simp only [Bool.or_eq_true, Bool.not_eq_true', List.any_eq_true, Bool.and_eq_true, beq_iff_eq,
    List.all_eq_true, bne_iff_ne, ne_eq] at this
  rcases this with (h1 | h1) | h1
  · rw [hl] at h1; cases h1
  · obtain ⟨s, hs, ⟨⟨⟨a, b⟩, c⟩, d⟩⟩ := h1
    exact ⟨s, hs, a, b, c, d⟩
  · exact absurd hid.symm (h1 d' hd')

theorem liveOrd_back {db db' : Db} (h : subsOk db db' = true) {d' : Delivery} (hd' : d' ∈ db'.dels)
    (hord : liveOrd db' d'.subId = true) : liveOrd db d'.subId = true := by
  obtain ⟨s', hs', hid, hl, ho⟩ := (liveOrd_iff db' d'.subId).mp hord
  obtain ⟨s, hs, a, b, c, _⟩ := subsOk_spec h hs' hl hd' hid
  exact (liveOrd_iff db d'.subId).mpr ⟨s, hs, b.trans hid, a, c.trans ho⟩

theorem open_back {db : Db} {now now' : Time} {db' : Db} {e e' : Delivery} (r : RowUpd db now db' e e')
    (hnow : now ≤ now') (h : e'.isOpen now' = true) : e.isOpen now = true := by
  rw [isOpen_true_iff] at h ⊢
  refine ⟨?_, ?_⟩
  · cases hc : e.completedAt with
    | none => rfl
    | some t =>
      have := r.comp (by simp [hc])
      cases hc' : e'.completedAt <;> simp [hc'] at this h
  · have := h.2; rw [r.exp] at this
    unfold Time at *; omega

theorem closed_fwd {db : Db} {now now' : Time} {db' : Db} {e e' : Delivery} (r : RowUpd db now db' e e')
    (hnow : now ≤ now') (h : e.isOpen now = false) : e'.isOpen now' = false := by
  cases h' : e'.isOpen now' with
  | false => rfl
  | true => rw [open_back r hnow h'] at h; cases h

/-- the update phase: in-place updates, the new clock, the new subscriptions and messages tables -/
theorem Inv.update {db : Db} {now : Time} (h : Inv db now) {db' : Db} {now' : Time} {u : List Delivery}
    (hnow : now ≤ now') (hsubs : subsOk db db' = true) (hu : ∀ d' ∈ u, d' ∈ db'.dels)
    (hf : All2 (RowUpd db now db') db.dels u) :
    Inv { db' with dels := u } now' := by
  have back := fun d' (hd' : d' ∈ u) => forall2_mem_right hf d' hd'
  have ordb : ∀ d' ∈ u, ∀ d, RowUpd db now db' d d' → liveOrd db' d'.subId = true → liveOrd db d.subId = true := by
    intro d' hd' d r ho
    have := liveOrd_back hsubs (hu d' hd') ho
    rw [r.sub] at this; exact this
  refine ⟨?_, ?_, ?_, ?_, ?_, ?_⟩
  · show (u.map (·.id)).Nodup
    rw [forall2_ids hf]; exact h.uniq
  · intro d' hd'
    obtain ⟨d, hd, r⟩ := back d' hd'
    have := h.past d hd
    rw [r.pub]; unfold Time at *; omega
  · intro d' hd' s' hs' hl hid
    obtain ⟨d, hd, r⟩ := back d' hd'
    obtain ⟨s, hs, a, b, _, e⟩ := subsOk_spec hsubs hs' hl (hu d' hd') hid
    have := h.ttl d hd s hs a (by rw [b, hid, r.sub])
    rw [r.exp, r.pub, this, e]
  · intro d' hd' e' he' ho hsub hkey hk hpub
    obtain ⟨d, hd, rd⟩ := back d' hd'
    obtain ⟨e, he, re⟩ := back e' he'
    simp only [keyOf_dels, liveOrd_dels] at ho hkey hk
    have := h.stamp d hd e he (ordb d' hd' d rd ho) (by rw [← rd.sub, ← re.sub]; exact hsub)
      (by rw [← rd.key, ← re.key]; exact hkey) (by rw [← rd.key]; exact hk) (by rw [← rd.pub, ← re.pub]; exact hpub)
    rw [rd.id, re.id]; exact this
  · intro d' hd' e' he' ho hsub hkey hk hlt hopen
    obtain ⟨d, hd, rd⟩ := back d' hd'
    obtain ⟨e, he, re⟩ := back e' he'
    simp only [keyOf_dels, liveOrd_dels] at ho hkey hk ⊢
    obtain ⟨q, hq, hnb, hqs, hqk, hqle⟩ := h.link d hd e he (ordb d' hd' d rd ho) (by rw [← rd.sub, ← re.sub]; exact hsub)
      (by rw [← rd.key, ← re.key]; exact hkey) (by rw [← rd.key]; exact hk) (by rw [← rd.pub, ← re.pub]; exact hlt)
      (open_back re hnow hopen)
    obtain ⟨q', hq', rq⟩ := forall2_mem_left hf q hq
    refine ⟨q', hq', ?_, ?_, ?_, ?_⟩
    · rw [rd.nb, hnb, rq.id]
    · rw [rq.sub, hqs, rd.sub]
    · rw [rq.key, hqk, rd.key]
    · rw [re.pub, rq.pub]; exact hqle
  · intro q' hq' e' he' ho hsub hkey hk htouched hlt
    obtain ⟨q, hq, rq⟩ := back q' hq'
    obtain ⟨e, he, re⟩ := back e' he'
    simp only [keyOf_dels, liveOrd_dels] at ho hkey hk
    have hordq := ordb q' hq' q rq ho
    have hsub0 : q.subId = e.subId := by rw [← rq.sub, ← re.sub]; exact hsub
    have hkey0 : keyOf db q = keyOf db e := by rw [← rq.key, ← re.key]; exact hkey
    have hk0 : keyOf db q ≠ none := by rw [← rq.key]; exact hk
    have hlt0 : e.publishedAt < q.publishedAt := by rw [← rq.pub, ← re.pub]; exact hlt
    apply closed_fwd re hnow
    by_cases hold : 0 < q.attempts ∨ q.completedAt.isSome = true
    · exact h.touched q hq e he hordq hsub0 hkey0 hk0 hold hlt0
    · -- touched in this step for the first time: the link allowed it
      have hq0 : q.attempts = 0 := by
        cases hqa : q.attempts with
        | zero => rfl
        | succ n => exact absurd (Or.inl (by omega)) hold
      have hqc : q.completedAt.isNone = true := by
        cases hc : q.completedAt with
        | none => rfl
        | some t => exact absurd (Or.inr (by simp [hc])) hold
      have hch : q.attempts < q'.attempts ∨ (q.completedAt.isNone = true ∧ q'.completedAt.isSome = true) := by
        rcases htouched with ht | ht
        · left; omega
        · right; exact ⟨hqc, ht⟩
      rcases rq.just hch hordq hk0 with hj | hj
      · omega
      · cases hopen : e.isOpen now with
        | false => rfl
        | true =>
          exfalso
          obtain ⟨q2, hq2, hnb, hq2s, hq2k, hq2le⟩ := h.link q hq e he hordq hsub0 hkey0 hk0 hlt0 hopen
          unfold Db.predDone at hj
          rw [hnb] at hj
          simp only at hj
          cases hq3 : db.delById q2.id with
          | none => rw [hq3] at hj; cases hj
          | some q3 =>
            rw [hq3] at hj
            have hq3m : q3 ∈ db.dels := List.mem_of_find?_eq_some hq3
            have hq3id : q3.id = q2.id := by
              have := List.find?_some hq3
              simpa using this
            have heq : q3 = q2 := eq_of_nodup_ids h.uniq hq3m hq2 hq3id
            subst heq
            have hdone : q3.isOpen now = false := (isOpen_false_iff now q3).mpr (by simpa using hj)
            have := h.closed hq3m he (by rw [hq2s]; exact hordq) (hq2s.trans hsub0) (hq2k.trans hkey0)
              (by rw [hq2k]; exact hk0) hq2le hdone
            rw [this] at hopen; cases hopen

/-! ### appending one row -/

structure RowNew (now : Time) (db' : Db) (now' : Time) (T : List Delivery) (r : Delivery) : Prop where
  lo : now ≤ r.publishedAt
  hi : r.publishedAt ≤ now'
  ttl : ∀ s ∈ db'.subs, s.live = true → s.id = r.subId → r.expiresAt = r.publishedAt + s.messageTtl
  comp : r.completedAt = none
  att : r.attempts = 0
  fresh : ∀ e ∈ T, e.id ≠ r.id
  link : liveOrd db' r.subId = true → keyOf db' r ≠ none →
    (r.notBefore = none ∧ cands db' T r = []) ∨
    (∃ q ∈ cands db' T r, r.notBefore = some q.id ∧ ∀ e ∈ cands db' T r, e.publishedAt ≤ q.publishedAt)
  stamp : liveOrd db' r.subId = true → keyOf db' r ≠ none →
    ∀ e ∈ T, e.subId = r.subId → keyOf db' e = keyOf db' r → e.publishedAt < r.publishedAt

theorem rowNew_of_ok {now : Time} {db' : Db} {now' : Time} {T : List Delivery} {r : Delivery}
    (h : rowNewOk now db' now' T r = true) (hs : stampOk db' T r = true) : RowNew now db' now' T r := by
  unfold rowNewOk at h
  simp only [Bool.and_eq_true, decide_eq_true_eq, List.all_eq_true, Bool.or_eq_true, Bool.not_eq_true',
    beq_iff_eq, bne_iff_ne, ne_eq, Option.isNone_iff_eq_none] at h
  obtain ⟨⟨⟨⟨⟨⟨h1, h2⟩, h3⟩, h4⟩, h5⟩, h6⟩, h7⟩ := h
  refine ⟨h1, h2, ?_, h4, h5, h6, ?_, ?_⟩
  · intro s hs hl hid
    rcases h3 s hs with h | h
    · simp [hl, hid] at h
    · exact h
  · intro ho hk
    rcases h7 with (h | h) | h
    · rw [ho] at h; cases h
    · exact absurd h hk
    · cases hnb : r.notBefore with
      | none =>
        rw [hnb] at h
        left; exact ⟨rfl, List.isEmpty_iff.mp h⟩
      | some p =>
        rw [hnb] at h
        right
        simp only [List.any_eq_true, Bool.and_eq_true, beq_iff_eq, List.all_eq_true, decide_eq_true_eq] at h
        obtain ⟨q, hq, hqp, hall⟩ := h
        exact ⟨q, hq, by rw [hqp], hall⟩
  · intro ho hk e he hsub hkey
    unfold stampOk at hs
    simp only [Bool.or_eq_true, Bool.not_eq_true', List.all_eq_true, Bool.and_eq_false_iff, decide_eq_true_eq,
      Option.isNone_iff_eq_none] at hs
    rcases hs with (h | h) | h
    · rw [ho] at h; cases h
    · exact absurd h hk
    · rcases h e he with h | h
      · rcases h with h | h
        · simp [hsub] at h
        · simp [hkey] at h
      · exact h

theorem mem_cands {db' : Db} {T : List Delivery} {r e : Delivery} :
    e ∈ cands db' T r ↔ e ∈ T ∧ e.subId = r.subId ∧ r.publishedAt < e.expiresAt ∧ keyOf db' e = keyOf db' r := by
  unfold cands
  simp only [List.mem_filter, Bool.and_eq_true, beq_iff_eq, decide_eq_true_eq]
  constructor
  · rintro ⟨a, ⟨b, c⟩, d⟩; exact ⟨a, b, c, d⟩
  · rintro ⟨a, b, c, d⟩; exact ⟨a, ⟨b, c⟩, d⟩

theorem Inv.append {db' : Db} {now now' : Time} {T : List Delivery} {r : Delivery}
    (h : Inv { db' with dels := T } now') (hr : RowNew now db' now' T r) :
    Inv { db' with dels := T ++ [r] } now' := by
  have hmem : ∀ x, x ∈ ({ db' with dels := T ++ [r] } : Db).dels → x ∈ T ∨ x = r := by
    intro x hx
    have : x ∈ T ++ [r] := hx
    simpa using this
  have inT : ∀ x, x ∈ T → x ∈ ({ db' with dels := T ++ [r] } : Db).dels := by
    intro x hx
    show x ∈ T ++ [r]
    simp [hx]
  refine ⟨?_, ?_, ?_, ?_, ?_, ?_⟩
  · show ((T ++ [r]).map (·.id)).Nodup
    rw [List.map_append, List.nodup_append]
    refine ⟨h.uniq, by simp, ?_⟩
    intro a ha b hb
    simp only [List.map_cons, List.map_nil, List.mem_singleton] at hb
    simp only [List.mem_map] at ha
    obtain ⟨e, he, rfl⟩ := ha
    rw [hb]; exact hr.fresh e he
  · intro d hd
    rcases hmem d hd with hdT | hdr
    · exact h.past d hdT
    · rw [hdr]; exact hr.hi
  · intro d hd s hs hl hid
    rcases hmem d hd with hdT | hdr
    · exact h.ttl d hdT s hs hl hid
    · rw [hdr] at hid ⊢; exact hr.ttl s hs hl hid
  · intro d hd e he ho hsub hkey hk hpub
    simp only [keyOf_dels, liveOrd_dels] at ho hkey hk
    rcases hmem d hd with hdT | hdr
    · rcases hmem e he with heT | her
      · exact h.stamp d hdT e heT ho hsub hkey hk hpub
      · rw [her] at hsub hkey hpub
        have := hr.stamp (by rw [← hsub]; exact ho) (by rw [← hkey]; exact hk) d hdT hsub hkey
        unfold Time at *; omega
    · rcases hmem e he with heT | her
      · rw [hdr] at ho hsub hkey hk hpub
        have := hr.stamp ho hk e heT hsub.symm hkey.symm
        unfold Time at *; omega
      · rw [hdr, her]
  · intro d hd e he ho hsub hkey hk hlt hopen
    simp only [keyOf_dels, liveOrd_dels] at ho hkey hk ⊢
    rcases hmem d hd with hdT | hdr
    · rcases hmem e he with heT | her
      · obtain ⟨q, hq, a, b, c, dd⟩ := h.link d hdT e heT ho hsub hkey hk hlt hopen
        exact ⟨q, inT q hq, a, b, c, dd⟩
      · rw [her] at hsub hkey hlt
        have := hr.stamp (by rw [← hsub]; exact ho) (by rw [← hkey]; exact hk) d hdT hsub hkey
        unfold Time at *; omega
    · rcases hmem e he with heT | her
      · -- the new row: its link was chosen among the candidates, and `e` is one of them
        rw [hdr] at ho hsub hkey hk hlt ⊢
        have hopen' := (isOpen_true_iff now' e).mp hopen
        have hec : e ∈ cands db' T r := mem_cands.mpr ⟨heT, hsub.symm, by
          have := hr.hi; have := hopen'.2; unfold Time at *; omega, hkey.symm⟩
        rcases hr.link ho hk with ⟨_, hnil⟩ | ⟨q, hq, hnb, hall⟩
        · rw [hnil] at hec; cases hec
        · have hq' := mem_cands.mp hq
          exact ⟨q, inT q hq'.1, hnb, hq'.2.1, hq'.2.2.2, hall e hec⟩
      · rw [hdr, her] at hlt; exact absurd hlt (Int.lt_irrefl _)
  · intro q hq e he ho hsub hkey hk htouched hlt
    simp only [keyOf_dels, liveOrd_dels] at ho hkey hk
    rcases hmem q hq with hqT | hqr
    · rcases hmem e he with heT | her
      · exact h.touched q hqT e heT ho hsub hkey hk htouched hlt
      · rw [her] at hsub hkey hlt
        have := hr.stamp (by rw [← hsub]; exact ho) (by rw [← hkey]; exact hk) q hqT hsub hkey
        unfold Time at *; omega
    · exfalso
      rw [hqr] at htouched
      rcases htouched with ht | ht
      · rw [hr.att] at ht; exact Nat.lt_irrefl 0 ht
      · rw [hr.comp] at ht; cases ht

theorem Inv.appends {db' : Db} {now now' : Time} : ∀ (news T : List Delivery),
    Inv { db' with dels := T } now' → appendOk true now db' now' T news = true →
    Inv { db' with dels := T ++ news } now'
  | [], T, h, _ => by simpa using h
  | r :: rest, T, h, hok => by
    simp only [appendOk, Bool.and_eq_true, Bool.not_true, Bool.false_or] at hok
    have := Inv.appends rest (T ++ [r]) (h.append (rowNew_of_ok hok.1.1 hok.1.2)) hok.2
    simpa using this

theorem Inv.grow {db : Db} {now : Time} (h : Inv db now) {db' : Db} {now' : Time} (hnow : now ≤ now')
    (hsubs : subsOk db db' = true) (hg : growOk true db now db' now' = true) : Inv db' now' := by
  unfold growOk at hg
  simp only [Bool.and_eq_true] at hg
  have hu := h.update (u := db'.dels.take db.dels.length) hnow hsubs (fun d' hd' => List.mem_of_mem_take hd')
    (forall2_of_rowsUpdOk hg.1)
  have := Inv.appends _ _ hu hg.2
  rw [List.take_append_drop] at this
  exact this

/-! ### a shrinking step -/

theorem clr_id (R : List Id) (d : Delivery) : (clr R d).id = d.id := by
  unfold clr; split <;> (try split) <;> rfl
theorem clr_sub (R : List Id) (d : Delivery) : (clr R d).subId = d.subId := by
  unfold clr; split <;> (try split) <;> rfl
theorem clr_msg (R : List Id) (d : Delivery) : (clr R d).msgId = d.msgId := by
  unfold clr; split <;> (try split) <;> rfl
theorem clr_pub (R : List Id) (d : Delivery) : (clr R d).publishedAt = d.publishedAt := by
  unfold clr; split <;> (try split) <;> rfl
theorem clr_exp (R : List Id) (d : Delivery) : (clr R d).expiresAt = d.expiresAt := by
  unfold clr; split <;> (try split) <;> rfl
theorem clr_comp (R : List Id) (d : Delivery) : (clr R d).completedAt = d.completedAt := by
  unfold clr; split <;> (try split) <;> rfl
theorem clr_att (R : List Id) (d : Delivery) : (clr R d).attempts = d.attempts := by
  unfold clr; split <;> (try split) <;> rfl
theorem clr_open (R : List Id) (d : Delivery) (t : Time) : (clr R d).isOpen t = d.isOpen t := by
  unfold Delivery.isOpen; rw [clr_comp, clr_exp]
theorem clr_key (db : Db) (R : List Id) (d : Delivery) : keyOf db (clr R d) = keyOf db d := by
  unfold keyOf; rw [clr_msg]
theorem clr_nb_keep (R : List Id) (d : Delivery) (p : Id) (h : d.notBefore = some p) (hp : R.contains p = false) :
    (clr R d).notBefore = some p := by
  have hp' : ¬ p ∈ R := by
    intro hm
    have : R.contains p = true := List.contains_iff_mem.mpr hm
    rw [hp] at this; cases this
  unfold clr; rw [h]
  show (if R.contains p = true then _ else d).notBefore = some p
  rw [hp]; simpa using h

theorem Inv.shrink {db : Db} {now : Time} (h : Inv db now) {db' : Db} {now' : Time} (hnow : now ≤ now')
    (hsubs : subsOk db db' = true) (hs : shrinkOk db now db' = true) : Inv db' now' := by
  unfold shrinkOk at hs
  simp only [Bool.and_eq_true, beq_iff_eq, List.all_eq_true, Bool.or_eq_true, Bool.not_eq_true'] at hs
  obtain ⟨⟨hl, hrm⟩, hkeys⟩ := hs
  generalize hR : removedIds db.dels db'.dels = R at hl hrm hkeys
  -- every row of the new table is a kept old row with its link possibly cleared
  have back : ∀ d' ∈ db'.dels, ∃ d ∈ db.dels, R.contains d.id = false ∧ d' = clr R d := by
    intro d' hd'
    rw [hl] at hd'
    simp only [List.mem_map, List.mem_filter, Bool.not_eq_true'] at hd'
    obtain ⟨d, ⟨hd, hk⟩, rfl⟩ := hd'
    exact ⟨d, hd, hk, rfl⟩
  have fwd : ∀ d ∈ db.dels, R.contains d.id = false → clr R d ∈ db'.dels := by
    intro d hd hk
    rw [hl]
    simp only [List.mem_map, List.mem_filter, Bool.not_eq_true']
    exact ⟨d, ⟨hd, hk⟩, rfl⟩
  have key : ∀ d ∈ db.dels, R.contains d.id = false → keyOf db' (clr R d) = keyOf db d := by
    intro d hd hk
    rw [clr_key]
    rcases hkeys d hd with h1 | h1
    · rw [hk] at h1; cases h1
    · exact h1
  have ordb : ∀ d ∈ db.dels, R.contains d.id = false → liveOrd db' d.subId = true → liveOrd db d.subId = true := by
    intro d hd hk ho
    have := liveOrd_back hsubs (fwd d hd hk) (by rw [clr_sub]; exact ho)
    rw [clr_sub] at this; exact this
  have opn : ∀ d : Delivery, d.isOpen now' = true → d.isOpen now = true := by
    intro d hd
    rw [isOpen_true_iff] at hd ⊢
    refine ⟨hd.1, ?_⟩
    have := hd.2; unfold Time at *; omega
  refine ⟨?_, ?_, ?_, ?_, ?_, ?_⟩
  · rw [hl, List.map_map]
    have : ((fun x : Delivery => x.id) ∘ clr R) = (fun x => x.id) := by funext d; simp [Function.comp, clr_id]
    rw [this]
    exact List.Nodup.sublist (List.Sublist.map _ List.filter_sublist) h.uniq
  · intro d' hd'
    obtain ⟨d, hd, _, rfl⟩ := back d' hd'
    have := h.past d hd
    rw [clr_pub]; unfold Time at *; omega
  · intro d' hd' s' hs' hlv hid
    obtain ⟨d, hd, hk, rfl⟩ := back d' hd'
    obtain ⟨s, hs, a, b, _, e⟩ := subsOk_spec hsubs hs' hlv hd' hid
    have := h.ttl d hd s hs a (by rw [b, hid, clr_sub])
    rw [clr_exp, clr_pub, this, e]
  · intro d' hd' e' he' ho hsub hkey hk hpub
    obtain ⟨d, hd, hkd, rfl⟩ := back d' hd'
    obtain ⟨e, he, hke, rfl⟩ := back e' he'
    rw [clr_sub] at ho hsub
    rw [clr_sub] at hsub
    rw [key d hd hkd] at hkey hk
    rw [key e he hke] at hkey
    rw [clr_pub, clr_pub] at hpub
    rw [clr_id, clr_id]
    exact h.stamp d hd e he (ordb d hd hkd ho) hsub hkey hk hpub
  · intro d' hd' e' he' ho hsub hkey hk hlt hopen
    obtain ⟨d, hd, hkd, rfl⟩ := back d' hd'
    obtain ⟨e, he, hke, rfl⟩ := back e' he'
    rw [clr_sub] at ho hsub
    rw [clr_sub] at hsub
    rw [key d hd hkd] at hkey hk
    rw [key e he hke] at hkey
    rw [clr_pub, clr_pub] at hlt
    rw [clr_open] at hopen
    have hordd := ordb d hd hkd ho
    obtain ⟨q, hq, hnb, hqs, hqk, hqle⟩ := h.link d hd e he hordd hsub hkey hk hlt (opn e hopen)
    -- the link target is still there: a removed row is not outstanding, and then neither is `e`
    have hqkeep : R.contains q.id = false := by
      cases hc : R.contains q.id with
      | false => rfl
      | true =>
        exfalso
        rcases hrm q hq with (h1 | h1) | h1
        · rw [hc] at h1; cases h1
        · rw [hqs, hordd] at h1; cases h1
        · have := h.closed hq he (by rw [hqs]; exact hordd) (hqs.trans hsub) (hqk.trans hkey) (by rw [hqk]; exact hk) hqle h1
          rw [opn e hopen] at this; cases this
    refine ⟨clr R q, fwd q hq hqkeep, ?_, ?_, ?_, ?_⟩
    · rw [clr_id]; exact clr_nb_keep R d q.id hnb hqkeep
    · rw [clr_sub, clr_sub]; exact hqs
    · rw [key q hq hqkeep, key d hd hkd]; exact hqk
    · rw [clr_pub, clr_pub]; exact hqle
  · intro q' hq' e' he' ho hsub hkey hk htouched hlt
    obtain ⟨q, hq, hkq, rfl⟩ := back q' hq'
    obtain ⟨e, he, hke, rfl⟩ := back e' he'
    rw [clr_sub] at ho hsub
    rw [clr_sub] at hsub
    rw [key q hq hkq] at hkey hk
    rw [key e he hke] at hkey
    rw [clr_pub, clr_pub] at hlt
    rw [clr_att, clr_comp] at htouched
    rw [clr_open]
    have := h.touched q hq e he (ordb q hq hkq ho) hsub hkey hk htouched hlt
    cases h' : e.isOpen now' with
    | false => rfl
    | true => rw [opn e h'] at this; cases this

/-- **preservation**: a step that satisfies `stepOk` (with the clock assumption) keeps the invariant -/
theorem Inv.step {db : Db} {now : Time} (h : Inv db now) {db' : Db} {now' : Time}
    (hok : stepOk true db now db' now' = true) : Inv db' now' := by
  unfold stepOk at hok
  simp only [Bool.and_eq_true, decide_eq_true_eq, Bool.or_eq_true] at hok
  obtain ⟨⟨hnow, hsubs⟩, hg | hs⟩ := hok
  · exact h.grow hnow hsubs hg
  · exact h.shrink hnow hsubs hs

/-! ### steps that leave deliveries, subscriptions and messages alone -/

theorem rowUpdOk_refl (db : Db) (now : Time) (db' : Db) (hm : db'.msgs = db.msgs) (d : Delivery) :
    rowUpdOk db now db' d d = true := by
  have hk : keyOf db' d = keyOf db d := by unfold keyOf Db.msgById; rw [hm]
  unfold rowUpdOk
  simp only [beq_self_eq_true, Bool.true_and, Nat.le_refl, decide_true, hk, Nat.lt_irrefl, decide_false, Bool.false_or]
  cases hc : d.completedAt <;> simp

theorem rowsUpdOk_refl (db : Db) (now : Time) (db' : Db) (hm : db'.msgs = db.msgs) :
    ∀ l : List Delivery, rowsUpdOk db now db' l l = true
  | [] => rfl
  | d :: r => by simp only [rowsUpdOk, Bool.and_eq_true]; exact ⟨rowUpdOk_refl db now db' hm d, rowsUpdOk_refl db now db' hm r⟩

theorem subsOk_same (db db' : Db) (hs : db'.subs = db.subs) : subsOk db db' = true := by
  unfold subsOk
  rw [hs]
  apply List.all_eq_true.mpr
  intro s' hs'
  cases hl : s'.live with
  | false => simp
  | true =>
    simp only [Bool.not_true, Bool.false_or, Bool.or_eq_true, List.any_eq_true, Bool.and_eq_true, beq_iff_eq]
    left
    exact ⟨s', hs', ⟨⟨⟨hl, rfl⟩, rfl⟩, rfl⟩⟩

/-- a step that changes neither deliveries nor subscriptions nor messages and does not turn the clock
    back satisfies the obligation -/
theorem stepOk_of_same (db : Db) (now : Time) (db' : Db) (now' : Time) (hnow : now ≤ now')
    (hd : db'.dels = db.dels) (hs : db'.subs = db.subs) (hm : db'.msgs = db.msgs) :
    stepOk true db now db' now' = true := by
  unfold stepOk
  simp only [Bool.and_eq_true, decide_eq_true_eq, Bool.or_eq_true]
  refine ⟨⟨hnow, subsOk_same db db' hs⟩, Or.inl ?_⟩
  unfold growOk
  simp only [hd, List.take_length, List.drop_length, Bool.and_eq_true]
  exact ⟨rowsUpdOk_refl db now db' hm db.dels, rfl⟩

theorem rowsUpdOk_map (db : Db) (now : Time) (db' : Db) (g : Delivery → Delivery)
    (hg : ∀ d, rowUpdOk db now db' d (g d) = true) : ∀ l : List Delivery, rowsUpdOk db now db' l (l.map g) = true
  | [] => rfl
  | d :: r => by simp only [List.map_cons, rowsUpdOk, Bool.and_eq_true]; exact ⟨hg d, rowsUpdOk_map db now db' g hg r⟩

/-- a step that rewrites rows in place (same subscriptions and messages) -/
theorem stepOk_of_map (db : Db) (now : Time) (db' : Db) (now' : Time) (g : Delivery → Delivery) (hnow : now ≤ now')
    (hd : db'.dels = db.dels.map g) (hs : db'.subs = db.subs)
    (hg : ∀ d ∈ db.dels, rowUpdOk db now db' d (g d) = true) :
    stepOk true db now db' now' = true := by
  unfold stepOk
  simp only [Bool.and_eq_true, decide_eq_true_eq, Bool.or_eq_true]
  refine ⟨⟨hnow, subsOk_same db db' hs⟩, Or.inl ?_⟩
  unfold growOk
  have hlen : db.dels.length = (db.dels.map g).length := by simp
  simp only [hd, Bool.and_eq_true]
  rw [hlen, List.take_length, List.drop_length]
  refine ⟨?_, rfl⟩
  -- position by position
  have : ∀ l : List Delivery, (∀ d ∈ l, rowUpdOk db now db' d (g d) = true) → rowsUpdOk db now db' l (l.map g) = true := by
    intro l
    induction l with
    | nil => intro _; rfl
    | cons d r ih =>
      intro h
      simp only [List.map_cons, rowsUpdOk, Bool.and_eq_true]
      exact ⟨h d List.mem_cons_self, ih (fun x hx => h x (List.mem_cons_of_mem _ hx))⟩
  exact this db.dels hg

/-- a row whose only change is its next attempt time -/
theorem rowUpdOk_attemptAt (db : Db) (now : Time) (db' : Db) (hm : db'.msgs = db.msgs) (d : Delivery) (t : Time) :
    rowUpdOk db now db' d { d with attemptAt := t } = true := by
  have hk : keyOf db' { d with attemptAt := t } = keyOf db d := by unfold keyOf Db.msgById; rw [hm]
  unfold rowUpdOk
  simp only [beq_self_eq_true, Bool.true_and, Nat.le_refl, decide_true, hk, Nat.lt_irrefl, decide_false, Bool.false_or]
  cases hc : d.completedAt <;> simp

/-- a row that is completed, having been handed out before -/
theorem rowUpdOk_complete (db : Db) (now : Time) (db' : Db) (hm : db'.msgs = db.msgs) (d : Delivery) (t : Time)
    (hatt : 0 < d.attempts) : rowUpdOk db now db' d { d with completedAt := some t } = true := by
  have hk : keyOf db' { d with completedAt := some t } = keyOf db d := by unfold keyOf Db.msgById; rw [hm]
  unfold rowUpdOk
  simp only [beq_self_eq_true, Bool.true_and, Nat.le_refl, decide_true, hk, Nat.lt_irrefl, decide_false, Bool.false_or,
    Option.isSome_some, Bool.or_true, Bool.and_true, hatt]
  simp

theorem rowUpdOk_refl' (db : Db) (now : Time) (db' : Db) (d : Delivery) (hk : keyOf db' d = keyOf db d) :
    rowUpdOk db now db' d d = true := by
  unfold rowUpdOk
  simp only [beq_self_eq_true, Bool.true_and, Nat.le_refl, decide_true, hk, Nat.lt_irrefl, decide_false, Bool.false_or]
  cases hc : d.completedAt <;> simp

theorem rowsUpdOk_refl' (db : Db) (now : Time) (db' : Db) :
    ∀ l : List Delivery, (∀ d ∈ l, keyOf db' d = keyOf db d) → rowsUpdOk db now db' l l = true
  | [], _ => rfl
  | d :: r, h => by
    simp only [rowsUpdOk, Bool.and_eq_true]
    exact ⟨rowUpdOk_refl' db now db' d (h d (List.mem_cons_self ..)),
      rowsUpdOk_refl' db now db' r (fun x hx => h x (List.mem_cons_of_mem _ hx))⟩

/-- a step that only appends rows (and may add messages without changing the key of an existing row) -/
theorem stepOk_of_append (stamps : Bool) (db : Db) (now : Time) (db' : Db) (now' : Time) (rows : List Delivery)
    (hnow : now ≤ now') (hd : db'.dels = db.dels ++ rows) (hs : db'.subs = db.subs)
    (hk : ∀ d ∈ db.dels, keyOf db' d = keyOf db d)
    (happ : appendOk stamps now db' now' db.dels rows = true) :
    stepOk stamps db now db' now' = true := by
  unfold stepOk
  simp only [Bool.and_eq_true, decide_eq_true_eq, Bool.or_eq_true]
  refine ⟨⟨hnow, subsOk_same db db' hs⟩, Or.inl ?_⟩
  unfold growOk
  simp only [hd, List.take_left', List.drop_left', Bool.and_eq_true]
  exact ⟨rowsUpdOk_refl' db now db' db.dels hk, happ⟩

end Mmmbbb.Ord
