/-
What a pull does to the rows it hands out, and the lease it thereby creates.
-/
import Mmmbbb.Proofs.StepFrame
namespace Mmmbbb

theorem findDel_some_id {l : List Delivery} {i : Id} {d : Delivery} (h : findDel l i = some d) : d.id = i := by
  have := List.find?_some h
  simpa using this

theorem findDel_append_some {l rows : List Delivery} {i : Id} {d : Delivery} (h : findDel l i = some d) :
    findDel (l ++ rows) i = some d := by
  unfold findDel at *
  rw [List.find?_append, h]; rfl

/-- an `UPDATE … WHERE` that cannot match the row with key `i` leaves its lookup unchanged -/
theorem findDel_updateWhere_ne (l : List Delivery) (p : Delivery → Bool) (f : Delivery → Delivery) (i : Id)
    (hid : ∀ x, (f x).id = x.id) (hp : ∀ x, x.id = i → p x = false) :
    findDel (updateWhere p f l) i = findDel l i := by
  unfold updateWhere
  rw [findDel_map _ _ _ (by intro x; split <;> simp [hid])]
  cases h : findDel l i with
  | none => rfl
  | some x =>
    have := hp x (findDel_some_id h)
    simp [this]

theorem findDel_markCompleted_ne (l : List Delivery) (j i : Id) (now : Time) (h : j ≠ i) :
    findDel (markCompleted j now l) i = findDel l i := by
  unfold markCompleted
  apply findDel_updateWhere_ne
  · intro x; rfl
  · intro x hx
    simp only [beq_eq_false_iff_ne, ne_eq]
    rw [hx]; exact fun e => h e.symm

/-- dead-lettering `d` does not touch the lookup of any other key that was present -/
theorem deadLetter_keeps {db : Db} {d : Delivery} {dlt : Id} {now : Time} {fwds : List Fwd}
    {db' : Db} {w : List Id} (h : deadLetter db d dlt now fwds = .ok (db', w))
    {i : Id} {c : Delivery} (hne : d.id ≠ i) (hc : findDel db.dels i = some c) :
    findDel db'.dels i = some c := by
  obtain ⟨rows, rfl⟩ := deadLetter_shape h
  simp only
  rw [findDel_markCompleted_ne _ _ _ _ hne]
  exact findDel_append_some hc

theorem nodupIds_iff (l : List Id) : nodupIds l = true ↔ l.Nodup := by
  induction l with
  | nil => simp [nodupIds]
  | cons x r ih =>
    simp only [nodupIds, Bool.and_eq_true, Bool.not_eq_true', List.nodup_cons, ih]
    constructor
    · rintro ⟨h1, h2⟩
      refine ⟨?_, h2⟩
      intro hm
      have : r.contains x = true := List.contains_iff_mem.mpr hm
      rw [this] at h1; cases h1
    · rintro ⟨h1, h2⟩
      refine ⟨?_, h2⟩
      cases hc : r.contains x with
      | false => rfl
      | true => exact absurd (List.contains_iff_mem.mp hc) h1

/-- The rows named by the not yet processed candidates and by the pairs already in `delivered` are
    untouched by the loop: their primary-key lookup still returns the very row the query returned. -/
theorem pullLoop_keeps (s : Sub) (now : Time) (maxBytes : Nat) (strict : Bool) (obs : PullObs) :
    ∀ (cands : List Delivery) (i : Nat) (acc acc' : PullAcc),
      pullLoop s now maxBytes strict obs i cands acc = .ok acc' →
      ((acc.delivered.map (·.1.id)) ++ cands.map (·.id)).Nodup →
      (∀ x ∈ acc.delivered, findDel acc.db.dels x.1.id = some x.1) →
      (∀ c ∈ cands, findDel acc.db.dels c.id = some c) →
      (∀ x ∈ acc'.delivered, findDel acc'.db.dels x.1.id = some x.1) ∧
      (acc'.delivered.map (·.1.id)).Nodup := by
  intro cands
  induction cands with
  | nil =>
    intro i acc acc' h hnd hdel _
    unfold pullLoop at h
    injection h with h; subst h
    exact ⟨hdel, by simpa using hnd⟩
  | cons d r ih =>
    intro i acc acc' h hnd hdel hcands
    have hnd' : ((acc.delivered.map (·.1.id)) ++ r.map (·.id)).Nodup := by
      rw [List.map_cons] at hnd
      exact (List.nodup_append.mp hnd).1 |> fun h1 =>
        List.nodup_append.mpr ⟨h1, (List.nodup_cons.mp (List.nodup_append.mp hnd).2.1).2,
          fun a ha b hb => (List.nodup_append.mp hnd).2.2 a ha b (List.mem_cons_of_mem _ hb)⟩
    have hd_notin_del : ∀ x ∈ acc.delivered, d.id ≠ x.1.id := by
      intro x hx e
      rw [List.map_cons] at hnd
      exact (List.nodup_append.mp hnd).2.2 x.1.id (List.mem_map.mpr ⟨x, hx, rfl⟩) d.id List.mem_cons_self e.symm
    have hd_notin_r : ∀ c ∈ r, d.id ≠ c.id := by
      intro c hc e
      rw [List.map_cons] at hnd
      have := (List.nodup_cons.mp (List.nodup_append.mp hnd).2.1).1
      exact this (e ▸ List.mem_map.mpr ⟨c, hc, rfl⟩)
    unfold pullLoop at h
    split at h
    · cases h
    · split at h
      · exact ih _ _ _ h hnd' hdel (fun c hc => hcands c (List.mem_cons_of_mem _ hc))
      · split at h
        · split at h
          · cases h
          · rename_i db' w hdl
            refine ih _ _ _ h hnd' ?_ ?_
            · intro x hx
              exact deadLetter_keeps hdl (hd_notin_del x hx) (hdel x hx)
            · intro c hc
              exact deadLetter_keeps hdl (hd_notin_r c hc) (hcands c (List.mem_cons_of_mem _ hc))
        · split at h
          · cases h
          · rename_i δ _
            refine ih _ _ _ h ?_ ?_ ?_
            · simp only [List.map_append, List.map_cons, List.map_nil, List.append_assoc, List.singleton_append]
              rw [List.map_cons] at hnd
              exact hnd
            · intro x hx
              simp only [List.mem_append, List.mem_singleton] at hx
              rcases hx with hx | rfl
              · exact hdel x hx
              · exact hcands d List.mem_cons_self
            · intro c hc
              exact hcands c (List.mem_cons_of_mem _ hc)

/-- in a list whose keys are pairwise distinct, looking a member's key up returns that member -/
theorem find?_of_nodup_mem {α} (key : α → Id) : ∀ (l : List α) (x : α),
    (l.map key).Nodup → x ∈ l → l.find? (fun y => key y == key x) = some x := by
  intro l
  induction l with
  | nil => intro x _ hx; cases hx
  | cons a r ih =>
    intro x hnd hx
    rw [List.map_cons, List.nodup_cons] at hnd
    rcases List.mem_cons.mp hx with rfl | hx
    · simp [List.find?]
    · have hne : key a ≠ key x := fun e => hnd.1 (e ▸ List.mem_map.mpr ⟨x, hx, rfl⟩)
      have : (key a == key x) = false := by simpa using hne
      simp only [List.find?, this]
      exact ih x hnd.2 hx

/-- every pair the loop adds to `delivered` carries a delay inside the back-off window of the
    attempt it starts -/
theorem pullLoop_delays (s : Sub) (now : Time) (maxBytes : Nat) (strict : Bool) (obs : PullObs) :
    ∀ (cands : List Delivery) (i : Nat) (acc acc' : PullAcc),
      pullLoop s now maxBytes strict obs i cands acc = .ok acc' →
      ∀ x ∈ acc'.delivered, x ∈ acc.delivered ∨
        (x.1 ∈ cands ∧ s.dlTarget x.1 = none ∧
          Backoff.delayOk (Backoff.nominal s.minBackoff s.maxBackoff (x.1.attempts + 1)) x.2 = true) := by
  intro cands
  induction cands with
  | nil =>
    intro i acc acc' h
    unfold pullLoop at h
    injection h with h; subst h
    intro x hx; exact Or.inl hx
  | cons d r ih =>
    intro i acc acc' h x hx
    have lift : (x.1 ∈ r ∧ s.dlTarget x.1 = none ∧
          Backoff.delayOk (Backoff.nominal s.minBackoff s.maxBackoff (x.1.attempts + 1)) x.2 = true) →
        (x.1 ∈ d :: r ∧ s.dlTarget x.1 = none ∧
          Backoff.delayOk (Backoff.nominal s.minBackoff s.maxBackoff (x.1.attempts + 1)) x.2 = true) :=
      fun ⟨a, b⟩ => ⟨List.mem_cons_of_mem _ a, b⟩
    unfold pullLoop at h
    split at h
    · cases h
    · split at h
      · rcases ih _ _ _ h x hx with h1 | h1
        · exact Or.inl h1
        · exact Or.inr (lift h1)
      · split at h
        · split at h
          · cases h
          · rcases ih _ _ _ h x hx with h1 | h1
            · exact Or.inl h1
            · exact Or.inr (lift h1)
        · rename_i hnone
          split at h
          · cases h
          · rename_i δ hδ
            rcases ih _ _ _ h x hx with h1 | h1
            · simp only [List.mem_append, List.mem_singleton] at h1
              rcases h1 with h1 | h1
              · exact Or.inl h1
              · right
                subst h1
                refine ⟨List.mem_cons_self, hnone, ?_⟩
                unfold obsDelay at hδ
                split at hδ
                · cases hδ
                · split at hδ
                  · rename_i hok
                    injection hδ with hδ; subst hδ; exact hok
                  · cases hδ
            · exact Or.inr (lift h1)

theorem lookupAll_ids {f : Id → Option Delivery} (hf : ∀ i d, f i = some d → d.id = i) :
    ∀ (ids : List Id) (rows : List Delivery), lookupAll f ids = some rows → rows.map (·.id) = ids := by
  intro ids
  induction ids with
  | nil => intro rows h; unfold lookupAll at h; injection h with h; subst h; rfl
  | cons i t ih =>
    intro rows h
    unfold lookupAll at h
    split at h
    · rename_i a rest ha hrest
      injection h with h; subst h
      simp [hf i a ha, ih rest hrest]
    · cases h

/-- **what a pull does to the rows it hands out**: every element `(i, n)` of the response names a
    row `c` that was eligible before the pull, `n = c.attempts + 1`, and afterwards the row is exactly
    `c` with `attempts + 1`, `lastAttemptedAt = now` and `attemptAt = now + δ` for a delay `δ` inside
    the back-off window of attempt `n`. -/
theorem pull_post_delivered {db : Db} {now : Time} {sub : String} {max maxBytes : Nat} {strict : Bool}
    {wait : Int} {obs : PullObs} {o : TxOut PullRes} {now' : Time}
    (h : pull db now sub max maxBytes strict wait obs = .ok (o, now')) :
    ∃ s, db.liveSubByName sub = some s ∧
      ∀ x ∈ o.val.delivered, ∃ c δ, db.delById x.1 = some c ∧
        (refreshExpiry db s now).eligible s now c = true ∧ x.2 = c.attempts + 1 ∧
        Backoff.delayOk (Backoff.nominal s.minBackoff s.maxBackoff x.2) δ = true ∧
        o.db.delById x.1 = some (leaseRow now δ c) := by
  unfold pull at h
  split at h
  · cases h
  · rename_i s hs
    refine ⟨s, hs, ?_⟩
    simp only at h
    split at h
    · cases h
    · rename_i cands hc
      split at h
      · cases h
      · rename_i hok
        split at h
        · injection h with h; injection h with h1 _; subst h1
          intro x hx; cases hx
        · split at h
          · cases h
          · rename_i o' hd
            injection h with h; injection h with h1 _; subst h1
            unfold pullDeliver at hd
            split at hd
            · cases hd
            · rename_i acc hl
              injection hd with hd; subst hd
              simp only [Bool.not_eq_true, Bool.not_eq_false'] at hok
              unfold candsOk at hok
              simp only [Bool.and_eq_true] at hok
              have hids : cands.map (·.id) = obs.cands :=
                lookupAll_ids (fun i d hi => findDel_some_id hi) _ _ hc
              have hnd : (cands.map (·.id)).Nodup := (nodupIds_iff _).mp hok.1.1.1.2
              have hlook : ∀ c ∈ cands, findDel (refreshExpiry db s now).dels c.id = some c := by
                intro c hcm
                obtain ⟨i, _, hi⟩ := lookupAll_spec _ _ _ hc c hcm
                have : c.id = i := findDel_some_id hi
                rw [this]; exact hi
              have hkeep := pullLoop_keeps _ _ _ _ _ _ _ _ _ hl (by simpa using hnd)
                (by intro x hx; cases hx) hlook
              intro x hx
              simp only [List.mem_map] at hx
              obtain ⟨⟨c, δ⟩, hmem, rfl⟩ := hx
              have hcand := pullLoop_delays _ _ _ _ _ _ _ _ _ hl (c, δ) hmem
              rcases hcand with h0 | ⟨hcm, _, hδ⟩
              · cases h0
              · simp only at hcm hδ
                have hcl := hlook c hcm
                refine ⟨c, δ, hcl, List.all_eq_true.mp hok.1.1.2 c hcm, rfl, hδ, ?_⟩
                -- the post state: the row is still `c` after the loop, then leased
                have hafter : findDel acc.db.dels c.id = some c := hkeep.1 (c, δ) hmem
                show findDel (applyLeases now acc.delivered acc.db.dels) c.id = some (leaseRow now δ c)
                unfold applyLeases
                rw [findDel_map _ _ _ (by intro y; unfold applyLease; split <;> rfl), hafter]
                simp only [Option.map_some]
                unfold applyLease
                have := find?_of_nodup_mem (fun (y : Delivery × Int) => y.1.id) acc.delivered (c, δ)
                  (by simpa [List.map_map] using hkeep.2) hmem
                simp only at this
                rw [this]

/-! ### leases -/

/-- the lease on a row holds until `T`: the row is not due before `T`, or it is completed -/
def held (T : Time) (d : Delivery) : Prop := T ≤ d.attemptAt ∨ d.completedAt.isSome = true

def HeldRel (T : Time) (d d' : Delivery) : Prop := d'.id = d.id ∧ (held T d → held T d')

theorem rowRel_held (T : Time) : RowRel (HeldRel T) :=
  ⟨fun _ => ⟨rfl, fun h => h⟩,
   fun h₁ h₂ => ⟨h₂.1.trans h₁.1, fun h => h₂.2 (h₁.2 h)⟩,
   fun h => h.1,
   fun _ _ => ⟨rfl, fun _ => Or.inr rfl⟩⟩

/-- a successful pull before `T` keeps every lease that holds until `T` -/
theorem pull_held {db : Db} {now : Time} {sub : String} {max maxBytes : Nat} {strict : Bool} {wait : Int}
    {obs : PullObs} {o : TxOut PullRes} {now' : Time} (T : Time) (hT : now < T)
    (h : pull db now sub max maxBytes strict wait obs = .ok (o, now')) :
    DelsRel (HeldRel T) db.dels o.db.dels := by
  have hR := rowRel_held T
  have hpost := pull_post_delivered h
  unfold pull at h
  split at h
  · cases h
  · rename_i s hs
    simp only at h
    split at h
    · cases h
    · rename_i cands hc
      split at h
      · cases h
      · rename_i hok
        split at h
        · injection h with h; injection h with h1 _; subst h1
          exact DelsRel.refl hR _
        · split at h
          · cases h
          · rename_i o' hd
            injection h with h; injection h with h1 _; subst h1
            obtain ⟨s', hs', hpost⟩ := hpost
            rw [hs] at hs'; injection hs' with hs'; subst hs'
            unfold pullDeliver at hd
            split at hd
            · cases hd
            · rename_i acc hl
              injection hd with hd; subst hd
              have hloop := (pullLoop_rel hR _ _ _ _ _ _ _ _ _ hl).1
              -- row by row: a row that ends up leased was eligible (due, not completed) before `T`
              intro i d hdi
              obtain ⟨d1, hd1, r1⟩ := hloop i d hdi
              have hid1 : d1.id = i := findDel_some_id hd1
              show ∃ d', findDel (applyLeases now acc.delivered acc.db.dels) i = some d' ∧ HeldRel T d d'
              unfold applyLeases
              rw [findDel_map _ _ _ (by intro y; unfold applyLease; split <;> rfl), hd1]
              refine ⟨applyLease now acc.delivered d1, rfl, ?_⟩
              unfold applyLease
              split
              · rename_i c δ hfind
                -- i was handed out: its row before the pull was eligible
                have hmem : (c, δ) ∈ acc.delivered := List.mem_of_find?_eq_some hfind
                have hcid : c.id = i := by
                  have := List.find?_some hfind
                  simp only [beq_iff_eq] at this
                  rw [this, hid1]
                have hx : (c.id, c.attempts + 1) ∈
                    (acc.delivered.map (fun (x : Delivery × Int) => (x.1.id, x.1.attempts + 1))) :=
                  List.mem_map.mpr ⟨(c, δ), hmem, rfl⟩
                obtain ⟨c0, δ0, hc0, helig, _, _, _⟩ := hpost (c.id, c.attempts + 1) hx
                simp only at hc0
                rw [hcid] at hc0
                have : c0 = d := by
                  have e : findDel db.dels i = some c0 := hc0
                  rw [hdi] at e; injection e with e; exact e.symm
                subst this
                refine ⟨by simp [leaseRow, r1.1], ?_⟩
                intro hheld
                unfold Db.eligible Delivery.isOpen at helig
                simp only [Bool.and_eq_true, decide_eq_true_eq] at helig
                rcases hheld with h1 | h1
                · have := helig.1.2; exfalso; unfold Time at *; omega
                · have h2 := helig.1.1.2.1
                  cases hcc : c0.completedAt with
                  | none => rw [hcc] at h1; cases h1
                  | some t => rw [hcc] at h2; cases h2
              · exact r1

/-- **lease preservation, one step**: an operation executed before `T` that is not a nack, a
    non-positive deadline modification, a seek or a delivery prune job keeps every lease that holds
    until `T`. -/
theorem step_held (st : St) (op : Op) (T : Time) (hT : st.now < T) (hop : op.keepsLease = true) :
    DelsRel (HeldRel T) st.db.dels (step st op).1.db.dels := by
  have hR := rowRel_held T
  have hrefl := DelsRel.refl hR st.db.dels
  have of_eq : ∀ {l' : List Delivery}, l' = st.db.dels → DelsRel (HeldRel T) st.db.dels l' :=
    fun e => e ▸ hrefl
  cases op with
  | advance d => exact hrefl
  | createTopic n l i =>
    simp only [step, finish_db]
    cases h : createTopic st.db st.now n l i with
    | error e => exact hrefl
    | ok o => exact of_eq (createTopic_dels h)
  | deleteTopic n =>
    simp only [step, finish_db]
    cases h : deleteTopic st.db st.now n with
    | error e => exact hrefl
    | ok o => exact of_eq (deleteTopic_dels h)
  | createSub p i =>
    simp only [step, finish_db]
    cases h : createSub st.db st.now p i with
    | error e => exact hrefl
    | ok o => exact of_eq (createSub_dels h)
  | deleteSub n =>
    simp only [step, finish_db]
    cases h : deleteSub st.db st.now n with
    | error e => exact hrefl
    | ok o => exact of_eq (deleteSub_dels h)
  | publish t tick ms =>
    simp only [step]
    cases h : publish st.db st.now t tick ms with
    | error e => exact hrefl
    | ok o => exact (publish_rel hR h).1
  | pull s mx mb strict wait obs =>
    simp only [step]
    cases h : pull st.db st.now s mx mb strict wait obs with
    | error e => exact hrefl
    | ok r => obtain ⟨o, now'⟩ := r; exact pull_held T hT h
  | ack ids =>
    simp only [step, finish_db]
    cases h : ack st.db st.now ids with
    | error e => exact hrefl
    | ok o => exact (ack_rel hR h).1
  | nack ids ds fw => simp [Op.keepsLease] at hop
  | delay ids d =>
    simp only [Op.keepsLease, decide_eq_true_eq] at hop
    simp only [step, finish_db]
    cases h : delay st.db st.now ids d with
    | error e => exact hrefl
    | ok o =>
      refine (delay_rel hR ?_ h).1
      intro x hx
      refine ⟨rfl, ?_⟩
      intro hheld
      rcases hx with hx | hx
      · exfalso; omega
      · rcases hheld with h1 | h1
        · left; show T ≤ st.now + d; unfold Time at *; omega
        · right; exact h1
  | dlSweep mx v fw =>
    simp only [step, finish_db]
    cases h : dlSweep st.db st.now mx v fw with
    | error e => exact hrefl
    | ok o => exact (dlSweep_rel hR h).1
  | seekTime s t => simp [Op.keepsLease] at hop
  | seekSnap s n => simp [Op.keepsLease] at hop
  | snapshot n s l i =>
    simp only [step, finish_db]
    cases h : createSnapshot st.db st.now n s l i with
    | error e => exact hrefl
    | ok o => exact of_eq (createSnapshot_dels h)
  | deleteSnap n =>
    simp only [step, finish_db]
    cases h : deleteSnapshot st.db n with
    | error e => exact hrefl
    | ok o => exact of_eq (deleteSnapshot_dels h)
  | setDelay n d =>
    simp only [step, finish_db]
    cases h : setDelay st.db n d with
    | error e => exact hrefl
    | ok o => exact of_eq (setDelay_dels h)
  | expireSubs mx v =>
    simp only [step, finish_db]
    cases h : expireSubs st.db st.now mx v with
    | error e => exact hrefl
    | ok o => exact of_eq (expireSubs_dels h)
  | pruneCompletedDeliveries a mx v => simp [Op.keepsLease] at hop
  | pruneExpiredDeliveries mx v => simp [Op.keepsLease] at hop
  | pruneCompletedMessages a mx v =>
    simp only [step, finish_db]
    cases h : pruneCompletedMessages st.db st.now a mx v with
    | error e => exact hrefl
    | ok o => exact of_eq (pruneCompletedMessages_dels h)
  | pruneDeletedSubDeliveries a mx v => simp [Op.keepsLease] at hop
  | pruneDeletedSubs a mx v =>
    simp only [step, finish_db]
    cases h : pruneDeletedSubs st.db st.now a mx v with
    | error e => exact hrefl
    | ok o => exact of_eq (pruneDeletedSubs_dels h)
  | pruneDeletedTopics a mx v =>
    simp only [step, finish_db]
    cases h : pruneDeletedTopics st.db st.now a mx v with
    | error e => exact hrefl
    | ok o => exact of_eq (pruneDeletedTopics_dels h)

end Mmmbbb
