/-
Keyset paging (`Api.listPage`): following the page tokens from the first page visits every selected
row exactly once, in id order.
-/
import Mmmbbb.Model.Api
namespace Mmmbbb.Api

variable {α : Type}

abbrev SortedLe (key : α → Id) (l : List α) : Prop := l.Pairwise (fun a b => key a ≤ key b)
abbrev SortedLt (key : α → Id) (l : List α) : Prop := l.Pairwise (fun a b => key a < key b)

theorem mem_insertId' (key : α → Id) (x y : α) (l : List α) : y ∈ insertId key x l ↔ y = x ∨ y ∈ l := by
  induction l with
  | nil => simp [insertId]
  | cons a r ih =>
    unfold insertId
    split
    · simp
    · simp only [List.mem_cons, ih]
      constructor
      · rintro (h | h | h)
        · exact Or.inr (Or.inl h)
        · exact Or.inl h
        · exact Or.inr (Or.inr h)
      · rintro (h | h | h)
        · exact Or.inr (Or.inl h)
        · exact Or.inl h
        · exact Or.inr (Or.inr h)

theorem mem_sortId' (key : α → Id) (l : List α) (y : α) : y ∈ sortId key l ↔ y ∈ l := by
  unfold sortId
  induction l with
  | nil => simp
  | cons a r ih => simp only [List.foldr_cons, mem_insertId', ih, List.mem_cons]

theorem sortedLe_insertId (key : α → Id) (x : α) (l : List α) (h : SortedLe key l) : SortedLe key (insertId key x l) := by
  induction l with
  | nil => simp [insertId, SortedLe]
  | cons a r ih =>
    unfold insertId
    have ha := List.pairwise_cons.mp h
    split
    · rename_i hle
      refine List.pairwise_cons.mpr ⟨?_, h⟩
      intro b hb
      rcases List.mem_cons.mp hb with rfl | hb
      · exact hle
      · exact Nat.le_trans hle (ha.1 b hb)
    · rename_i hnle
      refine List.pairwise_cons.mpr ⟨?_, ih ha.2⟩
      intro b hb
      rcases (mem_insertId' key x b r).mp hb with rfl | hb
      · exact Nat.le_of_lt (Nat.lt_of_not_le hnle)
      · exact ha.1 b hb

theorem sortedLe_sortId (key : α → Id) (l : List α) : SortedLe key (sortId key l) := by
  unfold sortId
  induction l with
  | nil => simp [SortedLe]
  | cons a r ih => exact sortedLe_insertId key a _ ih

/-- with distinct keys the sort is strictly increasing -/
theorem sortedLt_insertId (key : α → Id) (x : α) (l : List α) (h : SortedLt key l) (hx : ∀ b ∈ l, key b ≠ key x) :
    SortedLt key (insertId key x l) := by
  induction l with
  | nil => simp [insertId, SortedLt]
  | cons a r ih =>
    unfold insertId
    have ha := List.pairwise_cons.mp h
    have hax : key a ≠ key x := hx a List.mem_cons_self
    split
    · rename_i hle
      have hlt : key x < key a := Nat.lt_of_le_of_ne hle (fun e => hax e.symm)
      refine List.pairwise_cons.mpr ⟨?_, h⟩
      intro b hb
      rcases List.mem_cons.mp hb with rfl | hb
      · exact hlt
      · exact Nat.lt_trans hlt (ha.1 b hb)
    · rename_i hnle
      refine List.pairwise_cons.mpr ⟨?_, ih ha.2 (fun b hb => hx b (List.mem_cons_of_mem _ hb))⟩
      intro b hb
      rcases (mem_insertId' key x b r).mp hb with rfl | hb
      · exact Nat.lt_of_not_le hnle
      · exact ha.1 b hb

theorem sortedLt_sortId (key : α → Id) (l : List α) (hd : l.Pairwise (fun a b => key a ≠ key b)) :
    SortedLt key (sortId key l) := by
  unfold sortId
  induction l with
  | nil => simp [SortedLt]
  | cons a r ih =>
    have h := List.pairwise_cons.mp hd
    refine sortedLt_insertId key a _ (ih h.2) ?_
    intro b hb
    have : b ∈ r := (mem_sortId' key r b).mp hb
    exact fun e => h.1 b this e.symm

theorem insertId_cons_le (key : α → Id) (x y : α) (r : List α) (h : key x ≤ key y) :
    insertId key x (y :: r) = x :: y :: r := by
  simp [insertId, h]

theorem insertId_cons_gt (key : α → Id) (x y : α) (r : List α) (h : ¬ key x ≤ key y) :
    insertId key x (y :: r) = y :: insertId key x r := by
  simp [insertId, h]

theorem insertId_front (key : α → Id) (x : α) (m : List α) (hm : ∀ b ∈ m, key x ≤ key b) :
    insertId key x m = x :: m := by
  cases m with
  | nil => rfl
  | cons c m' => exact insertId_cons_le key x c m' (hm c List.mem_cons_self)

/-- filtering commutes with inserting into a sorted list -/
theorem filter_insertId (key : α → Id) (q : α → Bool) (x : α) (l : List α) (h : SortedLe key l) :
    (insertId key x l).filter q = if q x then insertId key x (l.filter q) else l.filter q := by
  induction l with
  | nil =>
    show List.filter q [x] = _
    cases hq : q x <;> simp [hq, insertId]
  | cons a r ih =>
    have ha := List.pairwise_cons.mp h
    by_cases hle : key x ≤ key a
    · rw [insertId_cons_le key x a r hle]
      have hall : ∀ b ∈ (a :: r).filter q, key x ≤ key b := by
        intro b hb
        have hb' := (List.mem_filter.mp hb).1
        rcases List.mem_cons.mp hb' with rfl | hb'
        · exact hle
        · exact Nat.le_trans hle (ha.1 b hb')
      rw [insertId_front key x _ hall]
      rw [List.filter_cons]
    · rw [insertId_cons_gt key x a r hle, List.filter_cons, ih ha.2]
      cases hqa : q a
      · have e : List.filter q (a :: r) = List.filter q r := by simp [hqa]
        rw [e]
        simp
      · have e : List.filter q (a :: r) = a :: List.filter q r := by simp [hqa]
        rw [e, insertId_cons_gt key x a _ hle]
        cases hqx : q x <;> simp

theorem sortId_filter (key : α → Id) (q : α → Bool) (l : List α) :
    sortId key (l.filter q) = (sortId key l).filter q := by
  induction l with
  | nil => simp [sortId]
  | cons a r ih =>
    have hs := sortedLe_sortId key r
    have e : sortId key (a :: r) = insertId key a (sortId key r) := rfl
    rw [e, filter_insertId key q a _ hs]
    simp only [List.filter_cons]
    split
    · have e2 : sortId key (a :: r.filter q) = insertId key a (sortId key (r.filter q)) := rfl
      rw [e2, ih]
    · exact ih

/-- in a strictly sorted list, what lies after the last element of a non-empty prefix is the rest -/
theorem filter_after_take (key : α → Id) (l : List α) (h : SortedLt key l) (n : Nat) (hn : 0 < n) (hl : n ≤ l.length)
    (last : α) (hlast : (l.take n).getLast? = some last) :
    l.filter (fun r => decide (key last < key r)) = l.drop n := by
  induction l generalizing n with
  | nil => simp at hl; omega
  | cons a r ih =>
    have ha := List.pairwise_cons.mp h
    cases n with
    | zero => omega
    | succ k =>
      cases k with
      | zero =>
        simp only [List.take_succ_cons, List.take_zero, List.getLast?_singleton, Option.some.injEq] at hlast
        subst hlast
        simp only [List.filter_cons, Nat.lt_irrefl, decide_false, List.drop_succ_cons, List.drop_zero]
        apply List.filter_eq_self.mpr
        intro b hb
        simpa using ha.1 b hb
      | succ k' =>
        have hl' : k' + 1 ≤ r.length := by simp only [List.length_cons] at hl; omega
        have htk : (a :: r).take (k' + 1 + 1) = a :: r.take (k' + 1) := rfl
        rw [htk] at hlast
        have hne : r.take (k' + 1) ≠ [] := by
          intro e
          have := congrArg List.length e
          simp only [List.length_take, List.length_nil] at this
          omega
        have hlast' : (r.take (k' + 1)).getLast? = some last := by
          rw [List.getLast?_cons_of_ne_nil hne] at hlast
          exact hlast
        have hmem : last ∈ r := List.mem_of_mem_take (List.mem_of_getLast? hlast')
        have : ¬ key last < key a := Nat.lt_asymm (ha.1 last hmem)
        simp only [List.filter_cons, this, decide_false, List.drop_succ_cons]
        exact ih ha.2 (k' + 1) (Nat.succ_pos _) hl' hlast'

/-- follow the tokens: the pages obtained from `after` on, concatenated -/
def walk (key : α → Id) (p : α → Bool) (rows : List α) (size : Nat) : Nat → Option Id → List α
  | 0, _ => []
  | fuel + 1, after =>
    match listPage key p rows after size with
    | (page, none) => page
    | (page, some t) => page ++ walk key p rows size fuel (some t)

theorem listPage_sel (key : α → Id) (p : α → Bool) (rows : List α) (after : Option Id) (size : Nat) :
    listPage key p rows after size =
      (((sortId key (rows.filter p)).filter (afterPred key after)).take size,
       if size ≤ (((sortId key (rows.filter p)).filter (afterPred key after)).take size).length
       then (((sortId key (rows.filter p)).filter (afterPred key after)).take size).getLast?.map key else none) := by
  have e : sortId key (rows.filter fun r => p r && afterPred key after r) =
      (sortId key (rows.filter p)).filter (afterPred key after) := by
    rw [← sortId_filter, List.filter_filter]
    congr 1
    apply List.filter_congr
    intro x _
    exact Bool.and_comm _ _
  unfold listPage
  simp only []
  rw [e]

theorem walk_spec (key : α → Id) (p : α → Bool) (rows : List α) (size : Nat) (hsize : 0 < size)
    (hd : rows.Pairwise (fun a b => key a ≠ key b)) (fuel : Nat) (after : Option Id)
    (hf : ((sortId key (rows.filter p)).filter (afterPred key after)).length < fuel) :
    walk key p rows size fuel after = (sortId key (rows.filter p)).filter (afterPred key after) := by
  have hS : SortedLt key (sortId key (rows.filter p)) :=
    sortedLt_sortId key _ (hd.sublist List.filter_sublist)
  induction fuel generalizing after with
  | zero => omega
  | succ fuel ih =>
    unfold walk
    rw [listPage_sel]
    generalize hT : (sortId key (rows.filter p)).filter (afterPred key after) = T at hf ⊢
    have hTs : SortedLt key T := by rw [← hT]; exact hS.sublist List.filter_sublist
    by_cases hfull : size ≤ (T.take size).length
    · rw [if_pos hfull]
      have hlen : size ≤ T.length := by
        have h1 := hfull
        rw [List.length_take] at h1
        omega
      have hne : T.take size ≠ [] := by
        intro e
        have := congrArg List.length e
        simp only [List.length_take, List.length_nil] at this
        omega
      obtain ⟨last, hlast⟩ : ∃ last, (T.take size).getLast? = some last := by
        cases hg : (T.take size).getLast? with
        | none => exact absurd (List.getLast?_eq_none_iff.mp hg) hne
        | some l => exact ⟨l, rfl⟩
      rw [hlast]
      simp only [Option.map_some]
      have hdrop := filter_after_take key T hTs size hsize hlen last hlast
      -- the next selection is the rest of this one
      have hlastT : last ∈ T := List.mem_of_mem_take (List.mem_of_getLast? hlast)
      have hnext : (sortId key (rows.filter p)).filter (afterPred key (some (key last))) = T.drop size := by
        rw [← hdrop, ← hT, List.filter_filter]
        apply List.filter_congr
        intro x _
        have hla : afterPred key after last = true := by
          have := hlastT; rw [← hT] at this; exact (List.mem_filter.mp this).2
        cases after with
        | none => simp [afterPred]
        | some a =>
          simp only [afterPred, decide_eq_true_eq] at hla ⊢
          by_cases h1 : key last < key x
          · have h2 : a < key x := Nat.lt_trans hla h1
            simp [h1, h2]
          · simp [h1]
      have hlt : (T.drop size).length < fuel := by rw [List.length_drop]; omega
      have := ih (some (key last)) (by rw [hnext]; exact hlt)
      rw [this, hnext, List.take_append_drop]
    · rw [if_neg hfull]
      have : T.length < size := by
        have h1 := hfull
        rw [List.length_take] at h1
        omega
      exact List.take_of_length_le (Nat.le_of_lt this)

end Mmmbbb.Api
