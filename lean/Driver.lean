/-
Line-protocol driver: replays the operation lines written by the Go harness through the model and
reports, per line, `ok` or the first disagreement.  Core-only (links as a `lean_exe`).
-/
import Mmmbbb.Model.Step
import Mmmbbb.Model.Tx
import Mmmbbb.Model.Pure
import Mmmbbb.Model.Api
import Mmmbbb.Model.Ordered
import Mmmbbb.Model.Ordered2
import Mmmbbb.Model.Fragment
open Mmmbbb Mmmbbb.Codec

abbrev Fields := List (String × String)

def parseFields (ws : List String) : Fields :=
  ws.filterMap fun w =>
    match w.splitOn "=" with
    | [] => none
    | [_] => none
    | k :: rest => some (k, "=".intercalate rest)

def fget (fs : Fields) (k : String) : Option String := (fs.find? (·.1 == k)).map (·.2)

def fstr (fs : Fields) (k : String) : Except String String :=
  match fget fs k with
  | none => .error s!"missing field {k}"
  | some v => match dec v with
    | some s => .ok s
    | none => .error s!"bad encoding in field {k}"

def fnat (fs : Fields) (k : String) : Except String Nat :=
  match (fget fs k).bind String.toNat? with
  | some n => .ok n
  | none => .error s!"missing/bad nat field {k}"

def fint (fs : Fields) (k : String) : Except String Int :=
  match (fget fs k).bind String.toInt? with
  | some n => .ok n
  | none => .error s!"missing/bad int field {k}"

def fbool (fs : Fields) (k : String) : Except String Bool :=
  match fget fs k with
  | some "true" => .ok true
  | some "false" => .ok false
  | _ => .error s!"missing/bad bool field {k}"

def parseIds (s : String) : Except String (List Id) :=
  (splitNE s ",").mapM fun w => match w.toNat? with
    | some n => .ok n
    | none => .error s!"bad id {w}"

def fids (fs : Fields) (k : String) : Except String (List Id) :=
  match fget fs k with
  | none => .error s!"missing ids field {k}"
  | some v => parseIds v

def parseMap (s : String) : Except String StrMap :=
  (splitNE s ",").mapM fun w => match w.splitOn ":" with
    | [k, v] => match dec k, dec v with
      | some k', some v' => .ok (k', v')
      | _, _ => .error "bad map encoding"
    | _ => .error s!"bad map entry {w}"

def fmap (fs : Fields) (k : String) : Except String StrMap :=
  match fget fs k with
  | none => .error s!"missing map field {k}"
  | some v => parseMap v

def parseOptId (s : String) : Except String (Option Id) :=
  if s == "-" then .ok none else match s.toNat? with
    | some n => .ok (some n)
    | none => .error s!"bad optional id {s}"

/-- `sub:new:nb` -/
def parseFwd (s : String) : Except String Fwd :=
  match s.splitOn ":" with
  | [a, b, c] => do
    let nb ← parseOptId c
    match a.toNat?, b.toNat? with
    | some x, some y => pure { subId := x, newId := y, nb := nb }
    | _, _ => .error s!"bad fwd {s}"
  | _ => .error s!"bad fwd {s}"

def parseFwds (s : String) : Except String (List Fwd) := (splitNE s ";").mapM parseFwd

/-- `src/sub:new:nb,src/sub:new:nb` grouped by `src` -/
def parseSrcFwds (s : String) : Except String (List (Id × List Fwd)) := do
  let items ← (splitNE s ",").mapM fun w => match w.splitOn "/" with
    | [a, b] => do
      let f ← parseFwd b
      match a.toNat? with
      | some x => pure (x, f)
      | none => .error s!"bad src fwd {w}"
    | _ => .error s!"bad src fwd {w}"
  let srcs := dedup (items.map (·.1))
  pure (srcs.map fun src => (src, (items.filter (·.1 == src)).map (·.2)))

/-- `id:δ,id:δ` -/
def parseDelays (s : String) : Except String (List (Id × Int)) :=
  (splitNE s ",").mapM fun w => match w.splitOn ":" with
    | [a, b] => match a.toNat?, b.toInt? with
      | some x, some y => .ok (x, y)
      | _, _ => .error s!"bad delay {w}"
    | _ => .error s!"bad delay {w}"

def ffwds (fs : Fields) (k : String) : Except String (List (Id × List Fwd)) :=
  match fget fs k with
  | none => .ok []
  | some v => parseSrcFwds v

def fdelays (fs : Fields) (k : String) : Except String (List (Id × Int)) :=
  match fget fs k with
  | none => .ok []
  | some v => parseDelays v

def parsePubMsg (fs : Fields) : Except String PubMsg := do
  let id ← fnat fs "id"
  let payload ← fstr fs "payload"
  let plen ← fnat fs "plen"
  let attrs ← fmap fs "attrs"
  let key ← fstr fs "key"
  let fw ← match fget fs "fw" with
    | none => pure []
    | some v => parseFwds v
  pure { id, payload, plen, attrs, orderKey := key, fwds := fw }

def parseOp (op : String) (fs : Fields) (pending : List PubMsg) : Except String Op :=
  match op with
  | "advance" => do pure (.advance (← fint fs "d"))
  | "create_topic" => do pure (.createTopic (← fstr fs "name") (← fmap fs "labels") (← fnat fs "id"))
  | "delete_topic" => do pure (.deleteTopic (← fstr fs "name"))
  | "create_sub" => do
    let p : CreateSubParams := {
      name := ← fstr fs "name", topicName := ← fstr fs "topic", ttl := ← fint fs "ttl",
      messageTtl := ← fint fs "mttl", ordered := ← fbool fs "ordered", labels := ← fmap fs "labels",
      pushEndpoint := ← fstr fs "push", minBackoff := ← fint fs "minb", maxBackoff := ← fint fs "maxb",
      filter := ← fstr fs "filter", maxAttempts := ← fint fs "maxatt", dlTopic := ← fstr fs "dlt" }
    pure (.createSub p (← fnat fs "id"))
  | "delete_sub" => do pure (.deleteSub (← fstr fs "name"))
  | "publish" => do pure (.publish (← fstr fs "topic") (← fint fs "tick") pending)
  | "pull" => do
    let obs : PullObs := { cands := ← fids fs "cands", delays := ← fdelays fs "delays", fwds := ← ffwds fs "fw" }
    pure (.pull (← fstr fs "sub") (← fnat fs "max") (← fnat fs "maxbytes") (← fbool fs "strict") (← fint fs "wait") obs)
  | "ack" => do pure (.ack (← fids fs "ids"))
  | "nack" => do pure (.nack (← fids fs "ids") (← fdelays fs "delays") (← ffwds fs "fw"))
  | "delay" => do pure (.delay (← fids fs "ids") (← fint fs "d"))
  | "dl_sweep" => do pure (.dlSweep (← fnat fs "max") (← fids fs "victims") (← ffwds fs "fw"))
  | "seek_time" => do pure (.seekTime (← fstr fs "sub") (← fint fs "time"))
  | "seek_snap" => do pure (.seekSnap (← fstr fs "sub") (← fstr fs "snap"))
  | "snapshot" => do pure (.snapshot (← fstr fs "name") (← fstr fs "sub") (← fmap fs "labels") (← fnat fs "id"))
  | "delete_snap" => do pure (.deleteSnap (← fstr fs "name"))
  | "set_delay" => do pure (.setDelay (← fstr fs "sub") (← fint fs "d"))
  | "expire_subs" => do pure (.expireSubs (← fnat fs "max") (← fids fs "victims"))
  | "prune_completed_deliveries" => do
    pure (.pruneCompletedDeliveries (← fint fs "minage") (← fnat fs "max") (← fids fs "victims"))
  | "prune_expired_deliveries" => do pure (.pruneExpiredDeliveries (← fnat fs "max") (← fids fs "victims"))
  | "prune_completed_messages" => do
    pure (.pruneCompletedMessages (← fint fs "minage") (← fnat fs "max") (← fids fs "victims"))
  | "prune_deleted_sub_deliveries" => do
    pure (.pruneDeletedSubDeliveries (← fint fs "minage") (← fnat fs "max") (← fids fs "victims"))
  | "prune_deleted_subs" => do
    pure (.pruneDeletedSubs (← fint fs "minage") (← fnat fs "max") (← fids fs "victims"))
  | "prune_deleted_topics" => do
    pure (.pruneDeletedTopics (← fint fs "minage") (← fnat fs "max") (← fids fs "victims"))
  | _ => .error s!"unknown op {op}"

/-! ### API-level requests (`rpc` lines) -/

def parsePush (s : String) : Except String (Option Api.PushCfg) :=
  if s == "-" then .ok none
  else match s.splitOn "~" with
    | [ep, attrs, auth, unw] =>
      match dec ep, parseMap attrs with
      | some e, .ok a => .ok (some { endpoint := e, attrs := a, auth := auth == "true", unwrapped := unw == "true" })
      | _, _ => .error "bad push"
    | _ => .error "bad push"

def parseOptInt (s : String) : Except String (Option Int) :=
  if s == "-" then .ok none else match s.toInt? with | some v => .ok (some v) | none => .error s!"bad int {s}"

def parseSubReq (fs : Fields) : Except String Api.SubReq := do
  let push ← parsePush ((fget fs "push").getD "-")
  let dl ← match (fget fs "dl").getD "-" with
    | "-" => pure none
    | v => match v.splitOn "~" with
      | [t, n] => match dec t, n.toInt? with
        | some t', some n' => pure (some ({ topic := t', maxAttempts := n' } : Api.DlPolicy))
        | _, _ => .error "bad dl"
      | _ => .error "bad dl"
  let retry ← match (fget fs "retry").getD "-" with
    | "-" => pure none
    | v => match v.splitOn "~" with
      | [a, b] => do
        let a' ← parseOptInt a
        let b' ← parseOptInt b
        pure (some ({ minB := a', maxB := b' } : Api.RetryPol))
      | _ => .error "bad retry"
  pure { name := ← fstr fs "name", topic := ← fstr fs "topic", push := push, retention := ← fint fs "retention",
         labels := ← fmap fs "labels", ordering := ← fbool fs "ordering", expiration := ← fint fs "expiration",
         filter := ← fstr fs "filter", dl := dl, retry := retry, detached := ← fbool fs "detached" }

def parsePaths (fs : Fields) : Except String (List String) :=
  match fget fs "paths" with
  | none => .ok []
  | some v => (splitNE v ",").mapM fun w => match dec w with | some s => .ok s | none => .error "bad path"

def parseToken (fs : Fields) : Except String (Option (Option Id)) :=
  match (fget fs "tok").getD "-" with
  | "-" => .ok none
  | "!" => .ok (some none)
  | v => match v.toNat? with | some n => .ok (some (some n)) | none => .error "bad token"

def parseRpc (fs : Fields) : Except String Api.Rpc := do
  match (fget fs "kind").getD "" with
  | "createTopic" => pure (.createTopic (← fstr fs "name") (← fmap fs "labels") (← fbool fs "adv") (← fnat fs "id"))
  | "getTopic" => pure (.getTopic (← fstr fs "name"))
  | "updateTopic" =>
    let has ← fbool fs "has"
    let topic ← if has then do pure (some (← fstr fs "name", ← fmap fs "labels")) else pure none
    pure (.updateTopic topic (← parsePaths fs))
  | "deleteTopic" => pure (.deleteTopic (← fstr fs "name"))
  | "listTopics" => pure (.listTopics (← fstr fs "project") (← fint fs "size") (← parseToken fs))
  | "createSub" => pure (.createSub (← parseSubReq fs) (← fnat fs "id"))
  | "getSub" => pure (.getSub (← fstr fs "name"))
  | "updateSub" =>
    let has ← fbool fs "has"
    let r ← if has then do pure (some (← parseSubReq fs)) else pure none
    pure (.updateSub r (← parsePaths fs))
  | "deleteSub" => pure (.deleteSub (← fstr fs "name"))
  | "listSubs" => pure (.listSubs (← fstr fs "project") (← fint fs "size") (← parseToken fs))
  | "listTopicSubs" => pure (.listTopicSubs (← fstr fs "topic") (← fint fs "size") (← parseToken fs))
  | "modifyPush" => pure (.modifyPush (← fstr fs "name") (← parsePush ((fget fs "push").getD "-")))
  | "pullCheck" => pure (.pullCheck (← fstr fs "name") (← fint fs "max"))
  | "ackCheck" => pure (.ackCheck (← fstr fs "name") (← fbool fs "parse") (← fbool fs "ack"))
  | "seek" =>
    let target ← match (fget fs "target").getD "none" with
      | "none" => pure Api.SeekTarget.none
      | "zero" => pure Api.SeekTarget.timeZero
      | v => match v.splitOn ":" with
        | ["time", t] => match t.toInt? with | some x => pure (Api.SeekTarget.time x) | none => .error "bad time"
        | ["snap", n] => match dec n with | some x => pure (Api.SeekTarget.snapshot x) | none => .error "bad snap"
        | _ => .error "bad target"
    pure (.seek (← fstr fs "name") target)
  | "createSnap" => pure (.createSnap (← fstr fs "name") (← fstr fs "sub") (← fmap fs "labels") (← fnat fs "id"))
  | "getSnap" => pure (.getSnap (← fstr fs "name"))
  | "listSnaps" => pure (.listSnaps (← fstr fs "project") (← fint fs "size") (← parseToken fs))
  | "deleteSnap" => pure (.deleteSnap (← fstr fs "name"))
  | "publishCheck" => pure (.publishCheck (← fstr fs "topic") ((fget fs "bad").getD "false" == "true"))
  | k => .error s!"unknown rpc kind {k}"

structure DState where
  st      : St := {}
  pending : List PubMsg := []
  lineNo  : Nat := 0
  /-- ordered-delivery refinement (`Ord.stepOk`) over the steps replayed so far: steps checked, steps
      outside the hypotheses of `C05_ordered_partial` (seeks, configuration updates), steps on which only
      the clock assumption failed -/
  ordChecked  : Nat := 0
  ordExcluded : Nat := 0
  ordStamps   : Nat := 0
  /-- steps inside / outside the fragment of `C05_fragment` (`fragOk`, evaluated in the state before the step) -/
  fragIn  : Nat := 0
  fragOut : Nat := 0
  /-- the obligation without clock assumption (`Ord2.stepOk2`, `C05_ordered_ties`): steps that satisfy it,
      non-excluded steps that do not -/
  ord2Ok  : Nat := 0
  ord2Bad : Nat := 0
  /-- steps inside / outside the fragment of `C05_fragment_dl` (`fragOkDL`: everything but the seeks; acks of
      handed-out deliveries; tie-closed rounds of the jobs that delete deliveries) -/
  fragDLIn  : Nat := 0
  fragDLOut : Nat := 0

/-- the refinement obligation of one store step -/
def ordCheck (ds : DState) (st' : St) (excluded : Bool) : DState × Option String :=
  let ok2 := Ord2.stepOk2 ds.st.db ds.st.now st'.db st'.now
  let ds := if ok2 then { ds with ord2Ok := ds.ord2Ok + 1 } else if excluded then ds else { ds with ord2Bad := ds.ord2Bad + 1 }
  if Ord.stepOk true ds.st.db ds.st.now st'.db st'.now && ok2 then ({ ds with ordChecked := ds.ordChecked + 1 }, none)
  else if excluded then ({ ds with ordExcluded := ds.ordExcluded + 1 }, none)
  else if ok2 then ({ ds with ordStamps := ds.ordStamps + 1 }, none)
  else (ds, some "MISMATCH kind=ordered-refinement the step is neither a growth nor a shrink of the deliveries table in the sense of Ord2.stepOk2 (the obligation of C05_ordered_ties)")

def sortNat (l : List Nat) : List Nat := sortBy id l

/-- process one line; returns new state and the output line -/
def handle (ds : DState) (line : String) : DState × String :=
  let ds := { ds with lineNo := ds.lineNo + 1 }
  match line.splitOn " " with
  | [] => (ds, "ok")
  | op :: rest =>
    let fs := parseFields rest
    if op == "reset" then ({ lineNo := ds.lineNo }, "ok")
    else if op == "ordstats" then (ds, s!"R checked={ds.ordChecked} excluded={ds.ordExcluded} stamps={ds.ordStamps} fragin={ds.fragIn} fragout={ds.fragOut} ties={ds.ord2Ok} tiesbad={ds.ord2Bad} fragdlin={ds.fragDLIn} fragdlout={ds.fragDLOut}")
    else if op == "dump" then
      let mine := dump ds.st.db
      match rest with
      | [theirs] => if mine == theirs then (ds, "ok") else (ds, s!"MISMATCH kind=dump model={mine}")
      | _ => (ds, "ERROR malformed dump line")
    else if op == "fault" then
      -- an injected storage failure: nothing happened (a pull whose subscription check had committed
      -- refreshed the expiry); the clock is set to the implementation's
      match (fget fs "t").bind String.toInt?, (fget fs "ta").bind String.toInt? with
      | some t, some ta =>
        if t != ds.st.now then (ds, s!"MISMATCH kind=time model={ds.st.now} impl={t}")
        else
          let st' := faultEffect ds.st ((fget fs "refreshed").bind dec)
          ({ ds with st := { st' with now := ta }, pending := [] }, "ok")
      | _, _ => (ds, "ERROR malformed fault line")
    else if op == "msg" then
      match parsePubMsg fs with
      | .ok m => ({ ds with pending := ds.pending ++ [m] }, "ok")
      | .error e => (ds, s!"ERROR {e}")
    else if Pure.isPureOp op then (ds, Pure.handle op fs)
    else if op == "rpc" then
      match parseRpc fs with
      | .error e => (ds, s!"ERROR {e}")
      | .ok r =>
        match (fget fs "t").bind String.toInt? with
        | none => (ds, "ERROR missing t")
        | some t =>
          -- a request that failed inside the store may have consumed virtual time in the harness
          -- (its per-insert clock tick) that the API model does not account for: the clock may only
          -- run ahead of the model's, never behind
          if t < ds.st.now then (ds, s!"MISMATCH kind=time model={ds.st.now} impl={t}")
          else
            let ds := { ds with st := { ds.st with now := t } }
            let (db', resp) := Api.handle ds.st.db ds.st.now r
            let (ds, _) := ordCheck ds { ds.st with db := db' } true
            let ds := { ds with fragOut := ds.fragOut + 1 }
            let ds' := { ds with st := { ds.st with db := db' } }
            let exp := (fget fs "exp").getD ""
            let body := ((fget fs "body").bind dec).getD ""
            if resp.status.text != exp then (ds', s!"MISMATCH kind=status model={resp.status.text} impl={exp}")
            else if resp.status == .ok && resp.body != body then (ds', s!"MISMATCH kind=body model={enc resp.body} impl={enc body}")
            else
              match fget fs "wk" with
              | none => (ds', "ok")
              | some w =>
                let mine := showIds (sortNat (dedup resp.wakes))
                if mine == w then (ds', "ok") else (ds', s!"MISMATCH kind=wakes model={mine} impl={w}")
    else
      match parseOp op fs ds.pending with
      | .error e => ({ ds with pending := [] }, s!"ERROR {e}")
      | .ok o =>
        let ds := { ds with pending := [] }
        -- the clock of the implementation before the operation
        match (fget fs "t").bind String.toInt? with
        | none => (ds, "ERROR missing t")
        | some t =>
          if t != ds.st.now then (ds, s!"MISMATCH kind=time model={ds.st.now} impl={t}")
          else
            let (st', out) := step ds.st o
            let ds := if decide (fragOk ds.st o) then { ds with fragIn := ds.fragIn + 1 } else { ds with fragOut := ds.fragOut + 1 }
            let ds := if decide (fragOkDL ds.st o) then { ds with fragDLIn := ds.fragDLIn + 1 }
              else if op == "seek_time" || op == "seek_snap" then ds else { ds with fragDLOut := ds.fragDLOut + 1 }
            let (ds, ordBad) := ordCheck ds st' (op == "seek_time" || op == "seek_snap")
            let ds' := { ds with st := st' }
            let exp := (fget fs "exp").getD ""
            if let some b := ordBad then (ds', b)
            else if out.resp != exp then (ds', s!"MISMATCH kind=resp model={out.resp} impl={exp}")
            else
              match fget fs "wk" with
              | none => (ds', "ok")
              | some w =>
                let mine := showIds (sortNat (dedup out.wakes))
                if mine == w then (ds', "ok") else (ds', s!"MISMATCH kind=wakes model={mine} impl={w}")

partial def loop (hin hout : IO.FS.Stream) (ds : DState) : IO Unit := do
  let line ← hin.getLine
  if line.isEmpty then return ()
  let line := (line.dropEndWhile (fun c => c == '\n' || c == '\r')).toString
  let (ds', out) := handle ds line
  hout.putStrLn out
  hout.flush
  loop hin hout ds'

def main : IO Unit := do
  loop (← IO.getStdin) (← IO.getStdout) {}
