-- This module serves as the root of the `Mmmbbb` library.
-- Import modules here that should be built as part of the library.
import Mmmbbb.Basic
