#!/usr/bin/env python3
"""Prints the markdown table of seeded changes (from seeded/*/meta.json and out/seeded/*.log / seeded/*/result.json)."""
import json, glob, os, re
V = os.path.dirname(os.path.dirname(os.path.abspath(__file__)))
rows = []
for d in sorted(glob.glob(os.path.join(V, "seeded", "*"))):
    tag = os.path.basename(d)
    try: meta = json.load(open(os.path.join(d, "meta.json")))
    except Exception: continue
    res = {}
    rp = os.path.join(d, "result.json")
    if os.path.exists(rp): res = json.load(open(rp))
    rows.append((tag, meta.get("title", "")[:90], ", ".join(meta.get("files", []))[:60], res.get("caught_by", "?"), res.get("how", "")[:150]))
print("| id | change | files | caught by | how (quick tier) |\n|---|---|---|---|---|")
for r in rows: print("| %s | %s | %s | %s | %s |" % r)
