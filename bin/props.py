# per-property configuration of bin/check: which harness runner decides/validates the property
PROPS = {
    "C07": {"run": "^TestC07$", "level": "proof",
            "assumptions": ["participle's behaviour on this grammar is modelled by a hand-written lexer/parser and compared differentially",
                            "non-ASCII characters outside string literals are outside the modelled alphabet (skipped)"]},
    "C08": {"run": "^TestC08$", "level": "proof",
            "assumptions": ["participle's behaviour on this grammar is modelled by a hand-written lexer/parser and compared differentially",
                            "non-ASCII characters outside string literals are outside the modelled alphabet (skipped)"]},
    "C01": {"run": "^TestC01$", "level": "proof"},
    "C02": {"run": "^TestC02$", "level": "proof"},
    "C03": {"run": "^TestC03$", "level": "proof"},
    "C04": {"run": "^TestC04$", "level": "proof"},
    "C05": {"run": "^TestC05$", "level": "proof"},
    "C06": {"run": "^TestC06$", "level": "proof"},
    "C13": {"run": "^TestC13$", "level": "proof"},
    "C14": {"run": "^TestC14$", "level": "proof"},
    "C15": {"run": "^TestC15$", "level": "proof"},
}
