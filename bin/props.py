# per-property configuration of bin/check: which harness runner decides/validates the property
PROPS = {
    "C07": {"run": "^TestC07$", "level": "proof",
            "assumptions": ["participle's behaviour on this grammar is modelled by a hand-written lexer/parser and compared differentially",
                            "non-ASCII characters outside string literals are outside the modelled alphabet (skipped)"]},
    "C08": {"run": "^TestC08$", "level": "proof",
            "assumptions": ["participle's behaviour on this grammar is modelled by a hand-written lexer/parser and compared differentially",
                            "non-ASCII characters outside string literals are outside the modelled alphabet (skipped)"]},
}
