#!/usr/bin/env python3
"""Writes seeded/README.md: the table of all seeded breaking changes (seeded/*/meta.json, seeded/*/result.json)."""
import json, glob, os, re
V = os.path.dirname(os.path.dirname(os.path.abspath(__file__)))
rows = []
for d in sorted(glob.glob(os.path.join(V, "seeded", "C*"))):
    tag = os.path.basename(d)
    try: meta = json.load(open(os.path.join(d, "meta.json")))
    except Exception: continue
    res = {}
    rp = os.path.join(d, "result.json")
    if os.path.exists(rp): res = json.load(open(rp))
    target = tag.split("-")[0]
    how = res.get("how", "")
    tgt, first = "not run", ""
    for part in how.split("; C"):
        part = part if part.startswith("C") else "C" + part
        if part.startswith(target + ":"):
            body = part[len(target) + 1:].strip()
            if body.startswith("concrete failing input"):
                tgt = "concrete input"
            elif body:
                tgt = "proof/correspondence broken, no input found"
            first = body.split("—", 1)[1].strip() if "—" in body else body
    if target not in [x.strip() for x in res.get("caught_by", "").split(",")]:
        tgt = "MISSED"
    rows.append((tag, meta.get("title", "").replace("|", "/")[:100], ", ".join(meta.get("files", []))[:70], res.get("caught_by", "?"), tgt, first.replace("|", "/")[:110]))
out = ["# Seeded breaking changes", "",
       "Each directory holds `patch.diff` (apply with `git -C /repo apply`, undo with `git -C /repo checkout -- .`), `demo/` (a test plus `run.sh <repo>`: exit 1 with the change, 0 without), `meta.json` (what was changed, written by the sub-agent that made it) and `result.json` (what the checks said, written by `bin/parmut` / `bin/mutcheck`).",
       "All of them compile and pass the 312 baseline tests. `bin/mutcheck` (on /repo) and `bin/parmut` (parallel, on scratch clones) run the checks against them; none is ever committed to `/repo`.",
       "Waves: `Cnn-k` (first), `Cnn-w2-k`, `Cnn-w3-k`; each wave was written by fresh sub-agents that saw only the property text.", "",
       "%d changes; target check reports a concrete failing input for %d, a broken proof/correspondence without input for %d, misses %d." % (
           len(rows), sum(r[4] == "concrete input" for r in rows), sum(r[4].startswith("proof") for r in rows), sum(r[4] == "MISSED" for r in rows)), "",
       "| id | change | files | quick checks that report it | target check reports | first line of the target report |", "|---|---|---|---|---|---|"]
for r in rows: out.append("| %s | %s | %s | %s | %s | %s |" % r)
open(os.path.join(V, "seeded", "README.md"), "w").write("\n".join(out) + "\n")
print(out[6])
