#!/usr/bin/env python3
"""bin/seedresult.py <tag> <prop>...: run the quick checks of the given properties against seeded/<tag>/patch.diff (through
bin/mutcheck) and record in seeded/<tag>/result.json which of them report a violation and how."""
import json, os, subprocess, sys, re
V = os.path.dirname(os.path.dirname(os.path.abspath(__file__)))
tag, props = sys.argv[1], sys.argv[2:]
out = subprocess.run([os.path.join(V, "bin", "mutcheck"), os.path.join(V, "seeded", tag, "patch.diff")] + props, stdout=subprocess.PIPE, stderr=subprocess.STDOUT, text=True).stdout
caught, how = [], []
lines = out.splitlines()
for i, l in enumerate(lines):
    m = re.match(r"VIOLATION property=(\S+) replay=(\S+)( no-failing-input-found)?", l)
    if m:
        kind = "obligation/correspondence broken, no concrete input" if m.group(3) else "concrete failing input"
        detail = lines[i + 1].strip()[:160] if i + 1 < len(lines) else ""
        caught.append(m.group(1)); how.append("%s: %s — %s" % (m.group(1), kind, detail))
missed = [p for p in props if p not in caught]
rp = os.path.join(V, "seeded", tag, "result.json")
old = json.load(open(rp)) if os.path.exists(rp) else {}
old.update({"checked": sorted(set(old.get("checked", []) + props)), "caught_by": ", ".join(sorted(set((old.get("caught_by", "").split(", ") if old.get("caught_by") else []) + caught))) or "none",
            "missed_by": sorted(set(old.get("missed_by", [])) - set(caught) | set(missed)), "how": "; ".join(how) or old.get("how", "")})
json.dump(old, open(rp, "w"), indent=1)
print(tag, "caught by:", old["caught_by"], "| missed by:", old["missed_by"])
